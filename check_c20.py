"""C20 — lazy per-depth layers under concurrent first use.
Runs conc/ (rebuilt against the repository's working tree, hooks on) under three observers:
  * Miri with many scheduler seeds (data-race + UB detector, assertions on identity / exactly-once / results),
  * ThreadSanitizer on real threads, many fresh processes (first use happens once per process),
  * natively, many fresh processes (assertions only).
Imported by ./check (prop == C20).
"""
import json, os, re, subprocess, sys, time, hashlib, shutil
from concurrent.futures import ThreadPoolExecutor

VERIF = os.path.dirname(os.path.abspath(__file__))
GUARD = "--cfg cdshealpix_verif"

def log(*a):
    print(*a, file=sys.stderr, flush=True)

def bdir(kind, repo):
    tag = "" if repo == "/repo" else "-" + hashlib.sha1(repo.encode()).hexdigest()[:8]
    d = os.path.join(VERIF, ".build", f"conc-{kind}{tag}")
    os.makedirs(d, exist_ok=True)
    manifest = f"""[package]
name = "conc"
version = "0.1.0"
edition = "2018"
[[bin]]
name = "conc"
path = "{VERIF}/conc/src/main.rs"
[dependencies]
cdshealpix = {{ path = "{repo}" }}
[profile.release]
debug = 1
[workspace]
"""
    mp = os.path.join(d, "Cargo.toml")
    if not os.path.exists(mp) or open(mp).read() != manifest:
        open(mp, "w").write(manifest)
    if not os.path.exists(os.path.join(d, "Cargo.lock")):
        for cand in (os.path.join(repo, "Cargo.lock"), "/repo/Cargo.lock"):
            if os.path.exists(cand):
                shutil.copy(cand, os.path.join(d, "Cargo.lock")); break
    return d

def env(extra_flags=""):
    e = dict(os.environ, CARGO_NET_OFFLINE="true", RUST_BACKTRACE="0", CARGO_TERM_COLOR="never")
    e["RUSTFLAGS"] = (GUARD + " -A warnings " + extra_flags).strip()
    return e

def build(kind, repo):
    d = bdir(kind, repo)
    t0 = time.time()
    if kind == "native":
        cmd = ["cargo", "build", "--release", "--offline"]; e = env()
        exe = os.path.join(d, "target", "release", "conc")
    elif kind == "tsan":
        cmd = ["cargo", "+nightly", "build", "-Zbuild-std", "--target", "x86_64-unknown-linux-gnu", "--release", "--offline"]; e = env("-Zsanitizer=thread")
        exe = os.path.join(d, "target", "x86_64-unknown-linux-gnu", "release", "conc")
    else:
        return d, None
    r = subprocess.run(cmd, cwd=d, env=e, stdout=subprocess.PIPE, stderr=subprocess.STDOUT, text=True)
    if r.returncode != 0:
        log(r.stdout[-3000:])
        return d, None
    log(f"[check] C20 built {kind} in {time.time()-t0:.1f}s")
    return d, exe

RES = re.compile(r"C20-RESULT (\{.*\})")

def parse(out):
    m = RES.findall(out)
    return [json.loads(x) for x in m]

def in_repo_frames(text, repo):
    fr = re.findall(r"(" + re.escape(repo) + r"/src/[\w/]+\.rs:\d+)", text)
    return fr

def main(tier, seed, repo, replay_file):
    t0 = time.time()
    thorough = tier == "thorough"
    n_miri = 256 if thorough else 16
    n_tsan = 3000 if thorough else 120
    n_native = 10000 if thorough else 400
    if replay_file:
        rp = json.load(open(replay_file))
        r = subprocess.run(rp["cmd"], shell=True, cwd=rp.get("cwd", VERIF), env=env(rp.get("flags", "")), stdout=subprocess.PIPE, stderr=subprocess.STDOUT, text=True)
        print(r.stdout[-6000:])
        bad = r.returncode != 0
        if bad:
            print(f"VIOLATION property=C20 replay={replay_file}")
        return 1 if bad else 0
    violations = []      # dicts: tool, what, cmd, cwd, flags
    inconclusive = []
    stats = {"miri": {"runs": 0, "calls": 0, "groups": 0, "overlapping_groups": 0}, "tsan": {"runs": 0, "calls": 0, "groups": 0, "overlapping_groups": 0}, "native": {"runs": 0, "calls": 0, "groups": 0, "overlapping_groups": 0}}
    orders = {"miri": set(), "tsan": set(), "native": set()}
    samples = []

    def absorb(tool, res):
        for r in res:
            st = stats[tool]
            st["runs"] += 1; st["calls"] += r["calls"]; st["groups"] += r["depth_groups"]; st["overlapping_groups"] += r["groups_with_overlapping_calls"]
            for o in r.get("orders", []):
                orders[tool].add(o)
            if len(samples) < 6:
                samples.append({"tool": tool, "threads": r["threads"], "mode": r["mode"], "seed": r["seed"], "calls": r["calls"], "overlapping_groups": r["groups_with_overlapping_calls"], "orders": r.get("orders", [])[:3]})
            for v in r["violations"]:
                violations.append({"tool": tool, "what": v, "seed": r["seed"], "threads": r["threads"], "mode": r["mode"]})

    # ---------------- Miri
    d, _ = build("miri", repo)
    # "lightsurf" = the light workload plus the rest of the public surface through the shared layers (elliptical cone, polygon, bilinear,
    # ring conversion, external edge, ...): Miri's race detector needs both accesses to be executed, not a particular schedule, so 2-3 threads suffice
    miri_batches = [(4, "both", "light"), (3, "same", "light"), (6, "mixed", "light"), (4, "stagger", "light"), (2, "same", "lightsurf")]
    if thorough:
        miri_batches += [(3, "mixed", "lightsurf"), (3, "both", "full")]
    for bi, (thr, mode, light) in enumerate(miri_batches):
        n = n_miri if light == "light" else (4 if light == "lightsurf" and not thorough else 8)
        s0 = (seed * 1000 + bi * 100000) % 4000000
        flags = f"-Zmiri-disable-isolation -Zmiri-deterministic-floats -Zmiri-many-seeds={s0}..{s0 + n}"
        cmd = ["cargo", "+nightly", "miri", "run", "--offline", "--", str(thr), mode, str(seed), light]
        e = env(); e["MIRIFLAGS"] = flags
        try:
            r = subprocess.run(cmd, cwd=d, env=e, stdout=subprocess.PIPE, stderr=subprocess.STDOUT, text=True, timeout=7200 if thorough else 1200)
            out = r.stdout
        except subprocess.TimeoutExpired:
            inconclusive.append(f"miri batch {bi} hit the watchdog"); continue
        res = parse(out)
        absorb("miri", res)
        if "Undefined Behavior" in out or "Data race detected" in out or "FAILING SEED" in out:
            fs = re.findall(r"FAILING SEED: (\d+)", out)
            kind = "data race" if "Data race detected" in out else "undefined behaviour"
            first = re.search(r"error: Undefined Behavior: ([^\n]*)", out)
            frames = in_repo_frames(out, repo)[:4]
            one = f"MIRIFLAGS='-Zmiri-disable-isolation -Zmiri-deterministic-floats -Zmiri-seed={fs[0] if fs else s0}' cargo +nightly miri run --offline -- {thr} {mode} {seed} {light}"
            violations.append({"tool": "miri", "what": f"{kind}: {first.group(1)[:300] if first else ''} frames {frames}", "cmd": one, "cwd": d, "seed": fs[0] if fs else None, "threads": thr, "mode": mode})
        elif r.returncode != 0 and not res:
            inconclusive.append(f"miri batch {bi} failed without a report (exit {r.returncode}): {out[-600:]}")
        elif len(res) < n:
            inconclusive.append(f"miri batch {bi}: only {len(res)} of {n} seeds reported")
    # ---------------- TSan
    d, exe = build("tsan", repo)
    if exe is None:
        inconclusive.append("ThreadSanitizer build failed (-Zbuild-std)")
    else:
        def one(i):
            thr = [16, 8, 32, 2][i % 4]; mode = ["both", "same", "mixed", "stagger", "stagger"][i % 5]
            e = dict(os.environ, TSAN_OPTIONS="halt_on_error=0 exitcode=66 report_signal_unsafe=0")
            # one process in eight runs with the delay failpoint: the constructors of the lazily initialised tables sleep 30 ms, i.e. the
            # thread that builds a table stalls between claiming the slot and publishing it while the others arrive
            extra = ["full", "delay=30"] if i % 8 == 5 else []
            r = subprocess.run([exe, str(thr), mode, str(seed * 100000 + i)] + extra, stdout=subprocess.PIPE, stderr=subprocess.PIPE, text=True, env=e)
            return i, thr, mode, r.returncode, r.stdout, r.stderr
        seen_pairs = set()
        with ThreadPoolExecutor(max_workers=8) as ex:
            for i, thr, mode, rc, out, err in ex.map(one, range(n_tsan)):
                absorb("tsan", parse(out))
                if "WARNING: ThreadSanitizer" in err or rc == 66:
                    blocks = err.split("WARNING: ThreadSanitizer")[1:]
                    for b in blocks:
                        fr = tuple(sorted(set(re.sub(r":\d+$", "", f) for f in in_repo_frames(b, repo)[:2])))
                        if fr in seen_pairs:
                            continue
                        seen_pairs.add(fr)
                        violations.append({"tool": "tsan", "what": "ThreadSanitizer: " + b.strip().split("\n")[0][:200] + f" frames {in_repo_frames(b, repo)[:4]}", "cmd": f"TSAN_OPTIONS=exitcode=66 {exe} {thr} {mode} {seed * 100000 + i}", "cwd": d, "threads": thr, "mode": mode})
                elif rc != 0 and not parse(out):
                    inconclusive.append(f"tsan process {i} exited {rc} without report: {err[-300:]}")
    # ---------------- native stress
    d, exe = build("native", repo)
    if exe is None:
        inconclusive.append("native build failed")
    else:
        def one_n(i):
            thr = [16, 32, 8, 64][i % 4]; mode = ["both", "same", "mixed", "stagger", "stagger"][i % 5]
            extra = ["full", "delay=" + str([30, 60, 5][i % 3])] if i % 8 == 5 else []
            r = subprocess.run([exe, str(thr), mode, str(seed * 100000 + i)] + extra, stdout=subprocess.PIPE, stderr=subprocess.PIPE, text=True)
            return i, thr, mode, r.returncode, r.stdout, r.stderr
        with ThreadPoolExecutor(max_workers=8) as ex:
            for i, thr, mode, rc, out, err in ex.map(one_n, range(n_native)):
                res = parse(out)
                absorb("native", res)
                for v in violations:
                    if v.get("tool") == "native" and "cmd" not in v:
                        v["cmd"] = f"{exe} {v['threads']} {v['mode']} {v['seed']}"; v["cwd"] = d
                if rc != 0 and not res:
                    violations.append({"tool": "native", "what": f"process died (exit {rc}) during concurrent first use: {err[-300:]}", "cmd": f"{exe} {thr} {mode} {seed * 100000 + i}", "cwd": d})
    for v in violations:
        if "cmd" not in v:
            v["cmd"] = "(see tool/seed)"; v["cwd"] = VERIF
    # ---------------- verdict
    total_overlap = sum(s["overlapping_groups"] for s in stats.values())
    total_runs = sum(s["runs"] for s in stats.values())
    if total_runs == 0:
        inconclusive.append("no execution reported")
    elif total_overlap == 0:
        inconclusive.append("no two threads were ever inside get_or_create(depth) for the same depth at the same time")
    n_orders = sum(len(o) for o in orders.values())
    evaluations = sum(s["calls"] for s in stats.values())
    coverage = {
        "evaluations": evaluations,
        "distinct_nontrivial": n_orders,
        "rule": "one evaluation = one get_or_create(depth) call made by a thread released from a barrier together with the other threads (followed by hash / centre / neighbours / small cone / cell-size constant through the obtained layer, compared with a single-threaded recomputation; pointer identity across threads; construction counters == 1 through the cfg(cdshealpix_verif) hook). distinct_nontrivial = number of distinct (depth, completion order of the threads) pairs observed over all executions of all three observers (set union, counted by the runner) — i.e. distinct interleavings of concurrent first use actually seen; executions: Miri with many scheduler seeds (also the data-race/UB oracle), ThreadSanitizer processes, native processes.",
        "samples": samples or ["(none)"],
        "per_observer": {k: dict(v, distinct_orders=len(orders[k])) for k, v in stats.items()},
        "groups_with_two_calls_in_flight": total_overlap,
        "inconclusive": inconclusive,
        "exhaustive": False,
        "verdict": "violated" if violations else ("inconclusive" if inconclusive else "held-on-explored"),
    }
    evidence = {"property_id": "C20", "tier": tier, "seed": seed, "level": "exploration", "coverage": coverage,
                "assumptions": ["Miri's data-race detector and ThreadSanitizer are happens-before based: a race is reported as soon as both accesses are executed without ordering, whatever the schedule",
                                "schedules are sampled (Miri seeds, OS scheduling), not enumerated"],
                "wall_s": round(time.time() - t0, 2), "violations": len(violations)}
    evdir = os.path.join(VERIF, "evidence") if repo == "/repo" else os.path.join(VERIF, ".build", "evidence-other-tree")
    os.makedirs(evdir, exist_ok=True)
    json.dump(evidence, open(os.path.join(evdir, "C20.json"), "w"), indent=1)
    rc = 0
    if violations:
        rdir = os.path.join(evdir, "replay"); os.makedirs(rdir, exist_ok=True)
        for n, v in enumerate(violations[:20]):
            path = os.path.join(rdir, f"C20-{n}.json")
            json.dump({"property": "C20", "tool": v["tool"], "what": v["what"], "cmd": v["cmd"], "cwd": v["cwd"], "flags": "-Zsanitizer=thread" if v["tool"] == "tsan" else ""}, open(path, "w"), indent=1)
            print(f"VIOLATION property=C20 replay={path} [{v['tool']}] {v['what'][:500]}")
        rc = 1
    elif inconclusive:
        for s in inconclusive[:10]:
            print(f"INCONCLUSIVE property=C20 {s[:500]}")
        rc = 2
    log(f"[check] C20 {tier} seed={seed}: calls={evaluations} distinct_orders={n_orders} overlap_groups={total_overlap} violations={len(violations)} inconclusive={len(inconclusive)} wall={time.time()-t0:.1f}s -> exit {rc}")
    return rc
