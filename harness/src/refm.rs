//! Independent reference model of HEALPix geometry (Gorski et al. 2005; Calabretta & Roukema 2007).
//! Shares no code with the crate under test. Trusted base of every geometric oracle.
use std::f64::consts::PI;

pub const TRANS_Z: f64 = 2.0 / 3.0;
pub const SQRT6: f64 = 2.449489742783178;
pub const TWO_PI: f64 = 2.0 * PI;
pub fn trans_lat() -> f64 { TRANS_Z.asin() }

/// All admissible projected images (x in [0,8), y in [-2,2]) of a sphere point.
/// A point on a polar-cap facet boundary (or a pole) has several; `tol` (plane units) decides "on".
pub fn ref_proj_images(lon: f64, lat: f64, tol: f64) -> Vec<(f64, f64)> {
  let mut l = lon % TWO_PI;
  if l < 0.0 { l += TWO_PI; }
  let t = l * (4.0 / PI); // [0, 8]
  let z = lat.sin();
  let mut v = Vec::with_capacity(4);
  if z.abs() <= TRANS_Z {
    v.push((t % 8.0, 1.5 * z));
  }
  if z.abs() >= TRANS_Z - 1e-15 {
    let sigma = SQRT6 * (PI / 4.0 - lat.abs() / 2.0).sin();
    let sgn = if z < 0.0 { -1.0 } else { 1.0 };
    let q = ((t / 2.0).floor() as i64).rem_euclid(4);
    let tt = t - 2.0 * (t / 2.0).floor();
    let xc = (2 * q + 1) as f64;
    v.push(((xc + (tt - 1.0) * sigma).rem_euclid(8.0), sgn * (2.0 - sigma)));
    if tt * sigma <= tol || sigma <= tol {
      let xc2 = (2 * ((q + 3) % 4) + 1) as f64;
      v.push(((xc2 + sigma).rem_euclid(8.0), sgn * (2.0 - sigma)));
    }
    if (2.0 - tt) * sigma <= tol || sigma <= tol {
      let xc2 = (2 * ((q + 1) % 4) + 1) as f64;
      v.push(((xc2 - sigma).rem_euclid(8.0), sgn * (2.0 - sigma)));
    }
    if sigma <= tol {
      let xc2 = (2 * ((q + 2) % 4) + 1) as f64;
      v.push((xc2, sgn * (2.0 - sigma)));
    }
  }
  v
}

/// plane tolerance for a position whose longitude magnitude is |lon| (naive range reduction is promised only)
/// (twice the worst excess observed on the pinned tree, so that an equally accurate but differently rounded implementation passes)
pub fn plane_tol(lon: f64) -> f64 { 8e-16 * (lon.abs() * 4.0 / PI).max(8.0) + 2e-15 }

pub fn deinterleave(h: u64) -> (u32, u32) {
  let mut i = 0u32; let mut j = 0u32;
  for b in 0..32 {
    i |= (((h >> (2 * b)) & 1) as u32) << b;
    j |= (((h >> (2 * b + 1)) & 1) as u32) << b;
  }
  (i, j)
}
pub fn interleave(i: u32, j: u32) -> u64 {
  let mut h = 0u64;
  for b in 0..32 {
    h |= (((i >> b) & 1) as u64) << (2 * b);
    h |= (((j >> b) & 1) as u64) << (2 * b + 1);
  }
  h
}

pub fn n_hash(depth: u8) -> u64 { 12u64 << (2 * depth) }
pub fn nside(depth: u8) -> u64 { 1u64 << depth }

pub fn base_center(d0h: u64) -> (f64, f64) {
  let row = d0h / 4; let col = d0h % 4;
  match row { 0 => ((2 * col + 1) as f64, 1.0), 1 => ((2 * col) as f64, 0.0), _ => ((2 * col + 1) as f64, -1.0) }
}

pub fn split(depth: u8, h: u64) -> (u64, u32, u32) {
  let d0h = h >> (2 * depth);
  let (i, j) = deinterleave(h & ((1u64 << (2 * depth)) - 1));
  (d0h, i, j)
}
pub fn join(depth: u8, d0h: u64, i: u32, j: u32) -> u64 { (d0h << (2 * depth)) | interleave(i, j) }

/// centre of the cell in the projection plane (x may be outside [0,8): caller reduces)
pub fn cell_center_proj(depth: u8, h: u64) -> (f64, f64) {
  let ns = nside(depth) as f64;
  let (d0h, i, j) = split(depth, h);
  let (xc, yc) = base_center(d0h);
  (xc + (i as f64 - j as f64) / ns, yc + ((i as f64 + j as f64 + 1.0) - ns) / ns)
}
/// plane position of the in-cell offsets (dx along SE axis i.e. i, dy along SW axis i.e. j), dx,dy in [0,1]
pub fn cell_offset_proj(depth: u8, h: u64, dx: f64, dy: f64) -> (f64, f64) {
  let ns = nside(depth) as f64;
  let (d0h, i, j) = split(depth, h);
  let (xc, yc) = base_center(d0h);
  let fi = i as f64 + dx; let fj = j as f64 + dy;
  (xc + (fi - fj) / ns, yc + (fi + fj - ns) / ns)
}

/// L1 distance of `img` to the cell centre minus the half-diagonal, in plane units (<= 0 inside)
pub fn excess_outside(depth: u8, h: u64, img: (f64, f64)) -> f64 {
  let ns = nside(depth) as f64;
  let (cx, cy) = cell_center_proj(depth, h);
  let mut dx = (img.0 - cx).rem_euclid(8.0);
  if dx > 4.0 { dx -= 8.0; }
  dx.abs() + (img.1 - cy).abs() - 1.0 / ns
}
/// (contained within tol, smallest excess over admissible images)
pub fn contains(depth: u8, h: u64, lon: f64, lat: f64, tol: f64) -> (bool, f64) {
  let mut best = f64::INFINITY;
  for img in ref_proj_images(lon, lat, tol) {
    let e = excess_outside(depth, h, img);
    if e < best { best = e; }
  }
  (best <= tol, best)
}

/// inverse projection, x in [0,8], y in [-2,2]
pub fn ref_unproj(x: f64, y: f64) -> (f64, f64) {
  if y.abs() <= 1.0 {
    (x * PI / 4.0, (y * TRANS_Z).asin())
  } else {
    let sigma = 2.0 - y.abs();
    let q = ((x / 2.0).floor()).min(3.0).max(0.0);
    let xc = 2.0 * q + 1.0;
    let tt = if sigma > 0.0 { ((x - xc) / sigma).max(-1.0).min(1.0) } else { 0.0 };
    let lon = (xc + tt) * PI / 4.0;
    let lat = 2.0 * (sigma / SQRT6).min(1.0).acos() - PI / 2.0;
    (lon, if y < 0.0 { -lat } else { lat })
  }
}

pub fn v3(p: (f64, f64)) -> [f64; 3] { let (sl, cl) = p.1.sin_cos(); let (so, co) = p.0.sin_cos(); [cl * co, cl * so, sl] }
pub fn cross(a: [f64; 3], b: [f64; 3]) -> [f64; 3] { [a[1] * b[2] - a[2] * b[1], a[2] * b[0] - a[0] * b[2], a[0] * b[1] - a[1] * b[0]] }
pub fn dot(a: [f64; 3], b: [f64; 3]) -> f64 { a[0] * b[0] + a[1] * b[1] + a[2] * b[2] }
pub fn norm(a: [f64; 3]) -> f64 { dot(a, a).sqrt() }

/// great-circle distance, well conditioned at all separations
pub fn ang_dist(a: (f64, f64), b: (f64, f64)) -> f64 {
  let (va, vb) = (v3(a), v3(b));
  norm(cross(va, vb)).atan2(dot(va, vb))
}
/// for tiny separations the cross product of two rounded unit vectors loses relative accuracy;
/// this variant uses the haversine of coordinate differences, accurate to ~1e-16 relative to max(d, 1e-16)
pub fn ang_dist_small(a: (f64, f64), b: (f64, f64)) -> f64 {
  let dlat = b.1 - a.1;
  let mut dlon = (b.0 - a.0) % TWO_PI;
  if dlon > PI { dlon -= TWO_PI; } else if dlon < -PI { dlon += TWO_PI; }
  let s1 = (dlat * 0.5).sin(); let s2 = (dlon * 0.5).sin();
  let hav = s1 * s1 + a.1.cos() * b.1.cos() * s2 * s2;
  2.0 * hav.sqrt().min(1.0).asin()
}
/// best of both: haversine below 1e-3 rad, vector form above
pub fn dist(a: (f64, f64), b: (f64, f64)) -> f64 { let d = ang_dist(a, b); if d < 1e-3 { ang_dist_small(a, b) } else { d } }

/// destination point at angular distance rho and bearing th (th = 0 east, pi/2 north) from (lon, lat)
pub fn point_at(lon: f64, lat: f64, rho: f64, th: f64) -> (f64, f64) {
  let (sl, cl) = lat.sin_cos();
  let (so, co) = lon.sin_cos();
  let c = (cl * co, cl * so, sl);
  let e = (-so, co, 0.0);
  let n = (-sl * co, -sl * so, cl);
  let (sr, cr) = rho.sin_cos();
  let (st, ct) = th.sin_cos();
  let x = c.0 * cr + (e.0 * ct + n.0 * st) * sr;
  let y = c.1 * cr + (e.1 * ct + n.1 * st) * sr;
  let z = c.2 * cr + (e.2 * ct + n.2 * st) * sr;
  let l = y.atan2(x);
  let b = z.atan2((x * x + y * y).sqrt());
  (l.rem_euclid(TWO_PI), b)
}
/// same, but by local offsets (accurate for tiny rho where the 3-vector form rounds at 1e-16 absolute)
pub fn point_at_small(lon: f64, lat: f64, rho: f64, th: f64) -> (f64, f64) {
  if rho > 1e-4 || lat.abs() > 1.4 { return point_at(lon, lat, rho, th); }
  let (st, ct) = th.sin_cos();
  let nlat = lat + rho * st;
  let nlon = lon + rho * ct / lat.cos();
  (nlon.rem_euclid(TWO_PI), nlat)
}

/// Independent point location. None when the point is within `margin` cell of a border (ambiguous).
pub fn ref_hash_m(depth: u8, lon: f64, lat: f64, margin: f64) -> Option<u64> {
  let ns = nside(depth) as f64;
  let mut found: Option<u64> = None;
  for img in ref_proj_images(lon, lat, 0.0) {
    for d0 in 0..12u64 {
      let (xc, yc) = base_center(d0);
      let mut dx = (img.0 - xc).rem_euclid(8.0); if dx > 4.0 { dx -= 8.0; }
      let dy = img.1 - yc;
      let fi = ns * (dx + dy + 1.0) / 2.0; let fj = ns * (-dx + dy + 1.0) / 2.0;
      if fi > 0.0 && fi < ns && fj > 0.0 && fj < ns {
        let (i, j) = (fi.floor(), fj.floor());
        if fi - i < margin || i + 1.0 - fi < margin || fj - j < margin || j + 1.0 - fj < margin { return None; }
        let h = (d0 << (2 * depth)) | interleave(i as u32, j as u32);
        if let Some(p) = found { if p != h { return None; } }
        found = Some(h);
      }
    }
  }
  found
}
pub fn ref_hash(depth: u8, lon: f64, lat: f64) -> Option<u64> { ref_hash_m(depth, lon, lat, 1e-7) }

fn unp(x: f64, y: f64) -> (f64, f64) { ref_unproj(x.rem_euclid(8.0), y) }
/// S, E, N, W vertices
pub fn ref_vertices(depth: u8, h: u64) -> [(f64, f64); 4] {
  let ns = nside(depth) as f64; let (cx, cy) = cell_center_proj(depth, h);
  [unp(cx, cy - 1.0 / ns), unp(cx + 1.0 / ns, cy), unp(cx, cy + 1.0 / ns), unp(cx - 1.0 / ns, cy)]
}
/// SE, SW, NE, NW edge midpoints
pub fn ref_edge_mid(depth: u8, h: u64) -> [(f64, f64); 4] {
  let ns = nside(depth) as f64; let (cx, cy) = cell_center_proj(depth, h); let q = 0.5 / ns;
  [unp(cx + q, cy - q), unp(cx - q, cy - q), unp(cx + q, cy + q), unp(cx - q, cy + q)]
}
pub fn ref_center(depth: u8, h: u64) -> (f64, f64) { let (cx, cy) = cell_center_proj(depth, h); unp(cx, cy) }
pub fn ref_sph_coo(depth: u8, h: u64, dx: f64, dy: f64) -> (f64, f64) { let (x, y) = cell_offset_proj(depth, h, dx, dy); unp(x, y) }
/// 16 border points: 4 vertices + 3 interior points on each edge
pub fn ref_border_points(depth: u8, h: u64, per_edge: usize) -> Vec<(f64, f64)> {
  let ns = nside(depth) as f64; let (cx, cy) = cell_center_proj(depth, h);
  let vs = [(cx, cy - 1.0 / ns), (cx + 1.0 / ns, cy), (cx, cy + 1.0 / ns), (cx - 1.0 / ns, cy)];
  let mut out = Vec::new();
  for k in 0..4 {
    let a = vs[k]; let b = vs[(k + 1) % 4];
    for m in 0..=per_edge { let t = m as f64 / (per_edge + 1) as f64; out.push(unp(a.0 + (b.0 - a.0) * t, a.1 + (b.1 - a.1) * t)); }
  }
  out
}

// ---------------------------------------------------------------------------------------------
// RING scheme reference (integer arithmetic only)
// ---------------------------------------------------------------------------------------------
pub fn isqrt(n: u128) -> u128 { if n == 0 { return 0; } let mut x = (n as f64).sqrt() as u128; while x * x > n { x -= 1; } while (x + 1) * (x + 1) <= n { x += 1; } x }
/// (ring index i in 1..=4n-1, index in ring j, cells in ring)
pub fn ring_decode(nside: u64, h: u64) -> (u64, u64, u64) {
  let n = nside as u128; let h = h as u128;
  let ncap = 2 * n * (n - 1);
  let npix = 12 * n * n;
  if h < ncap {
    let mut i = (1 + isqrt(1 + 2 * h)) / 2;
    if i == 0 { i = 1; }
    while 2 * i * (i - 1) > h { i -= 1; }
    while 2 * (i + 1) * i <= h { i += 1; }
    (i as u64, (h - 2 * i * (i - 1)) as u64, (4 * i) as u64)
  } else if h < npix - ncap {
    let k = h - ncap; let i = n + k / (4 * n);
    (i as u64, (k % (4 * n)) as u64, (4 * n) as u64)
  } else {
    let hp = npix - 1 - h;
    let mut i = (1 + isqrt(1 + 2 * hp)) / 2;
    if i == 0 { i = 1; }
    while 2 * i * (i - 1) > hp { i -= 1; }
    while 2 * (i + 1) * i <= hp { i += 1; }
    let jm = hp - 2 * i * (i - 1);
    ((4 * n - i) as u64, (4 * i - 1 - jm) as u64, (4 * i) as u64)
  }
}
/// first RING index of ring i (1-based) and its size
pub fn ring_first(nside: u64, i: u64) -> (u64, u64) {
  let n = nside;
  if i < n { (2 * i * (i - 1), 4 * i) }
  else if i <= 3 * n { (2 * n * (n - 1) + (i - n) * 4 * n, 4 * n) }
  else { let ii = 4 * n - i; (12 * n * n - 2 * ii * (ii + 1), 4 * ii) }
}
pub fn ring_center_proj(nside: u64, h: u64) -> (f64, f64) {
  let (i, j, _) = ring_decode(nside, h);
  let n = nside as f64;
  if i < nside { let q = j / i; let k = j % i; ((2 * q + 1) as f64 + ((2 * k + 1) as f64 - i as f64) / n, 2.0 - i as f64 / n) }
  else if i <= 3 * nside { let s = ((i - nside + 1) & 1) as f64; ((2.0 * j as f64 + s) / n, (2.0 * n - i as f64) / n) }
  else { let ii = 4 * nside - i; let q = j / ii; let k = j % ii; ((2 * q + 1) as f64 + ((2 * k + 1) as f64 - ii as f64) / n, -(2.0 - ii as f64 / n)) }
}
pub fn ring_excess(nside: u64, h: u64, lon: f64, lat: f64, tol: f64) -> f64 {
  let (cx, cy) = ring_center_proj(nside, h);
  let mut best = f64::INFINITY;
  for img in ref_proj_images(lon, lat, tol) {
    let mut dx = (img.0 - cx).rem_euclid(8.0); if dx > 4.0 { dx -= 8.0; }
    let e = dx.abs() + (img.1 - cy).abs() - 1.0 / nside as f64;
    if e < best { best = e; }
  }
  best
}

// ---------------------------------------------------------------------------------------------
// polygons (convex, half-space oracle)
// ---------------------------------------------------------------------------------------------
/// signed margin: > 0 inside the convex polygon (any winding): min over edges of p . n_edge, n oriented toward the centroid
pub fn convex_margin(poly: &[(f64, f64)], p: (f64, f64)) -> f64 {
  let n = poly.len(); let pv = v3(p);
  let mut c = [0.0; 3]; for q in poly { let v = v3(*q); c[0] += v[0]; c[1] += v[1]; c[2] += v[2]; }
  let mut m = f64::INFINITY;
  for i in 0..n {
    let a = v3(poly[i]); let b = v3(poly[(i + 1) % n]);
    let mut nn = cross(a, b); let l = norm(nn);
    if l == 0.0 { continue; }
    nn = [nn[0] / l, nn[1] / l, nn[2] / l];
    let s = if dot(nn, c) >= 0.0 { 1.0 } else { -1.0 };
    let d = s * dot(nn, pv);
    if d < m { m = d; }
  }
  m
}

/// Gnomonic projection of p about c, computed from the coordinate *differences* (sin(dlat) + sin(lat0) cos(lat) (1 - cos dlon) for the
/// numerator of y): relative accuracy ~1e-15 whatever the size of the figure, where unit vectors only give 1e-16 absolute.
/// Great circles map to straight lines. None farther than ~87 deg from c.
pub fn gnomonic(c: (f64, f64), p: (f64, f64)) -> Option<(f64, f64)> {
  let mut dlon = p.0 - c.0; if dlon.abs() > PI { dlon = (dlon + PI).rem_euclid(TWO_PI) - PI; }
  let dlat = p.1 - c.1;
  let (s0, c0) = c.1.sin_cos(); let (s1, c1) = p.1.sin_cos();
  let sh = (0.5 * dlon).sin(); let omc = 2.0 * sh * sh;
  let d = s0 * s1 + c0 * c1 * (1.0 - omc);
  if !(d > 0.05) { return None; }
  Some((c1 * dlon.sin() / d, (dlat.sin() + s0 * c1 * omc) / d))
}

/// Signed margin of p with respect to a convex polygon inscribed in the small circle (centre c, radius r), any winding: > 0 inside.
/// Outside the circle: -(distance - r). Inside: half-plane tests in the gnomonic chart about c (in chart units ~ rad near c).
pub fn convex_margin_acc(poly: &[(f64, f64)], c: (f64, f64), r: f64, p: (f64, f64)) -> f64 {
  let dc = dist(p, c);
  if dc > r * (1.0 + 1e-6) + 1e-12 { return -(dc - r); }
  let g: Vec<(f64, f64)> = match poly.iter().map(|q| gnomonic(c, *q)).collect::<Option<Vec<_>>>() { Some(g) => g, None => return convex_margin(poly, p) };
  let pp = match gnomonic(c, p) { Some(x) => x, None => return convex_margin(poly, p) };
  let n = g.len(); let (mut gx, mut gy) = (0.0, 0.0); for q in g.iter() { gx += q.0 / n as f64; gy += q.1 / n as f64; }
  let mut m = f64::INFINITY;
  for i in 0..n { let (a, b) = (g[i], g[(i + 1) % n]); let (ex, ey) = (b.0 - a.0, b.1 - a.1); let l = (ex * ex + ey * ey).sqrt(); if l == 0.0 { continue; }
    let side = |q: (f64, f64)| (ex * (q.1 - a.1) - ey * (q.0 - a.0)) / l;
    let s = if side((gx, gy)) >= 0.0 { 1.0 } else { -1.0 };
    let d = s * side(pp); if d < m { m = d; } }
  m
}

/// Largest centre-to-vertex distance over the cells of a depth ("twice the largest centre-to-vertex distance of its depth" in C06/C12/C13):
/// exhaustively measured on the reference geometry for depths 0..10 (`hpxmon --prop XC2V`), D.nside grows from 0.8411 (depth 0) to 1.06877
/// (depth 10) and tends to 1.06897; deeper depths use 1.0690/nside. Each value carries a 1e-9 relative slack.
pub fn cell_radius_bound(depth: u8) -> f64 {
  const T: [f64; 11] = [0.8410686705679302, 0.48146047147606696, 0.2543334045529589, 0.13042543553450456, 0.0660147614325136, 0.03320666681176879,
    0.01665302521141051, 0.00833892084368468, 0.004172560737299982, 0.002087055235497685, 0.0010437213083341907];
  if (depth as usize) < T.len() { T[depth as usize] * (1.0 + 1e-9) } else { 1.0690 / nside(depth) as f64 }
}

/// offsets (dx, dy) in [0,1] (up to rounding) of a position with respect to cell h, from the admissible image closest to the cell
pub fn ref_offsets(depth: u8, h: u64, lon: f64, lat: f64) -> Option<(f64, f64)> {
  let ns = nside(depth) as f64;
  let (d0, i, j) = split(depth, h);
  let (xc, yc) = base_center(d0);
  let mut best: Option<(f64, (f64, f64))> = None;
  for img in ref_proj_images(lon, lat, 1e-13) {
    let mut dx = (img.0 - xc).rem_euclid(8.0); if dx > 4.0 { dx -= 8.0; }
    let dy = img.1 - yc;
    let fi = ns * (dx + dy + 1.0) / 2.0 - i as f64; let fj = ns * (-dx + dy + 1.0) / 2.0 - j as f64;
    let out = (fi - 0.5).abs().max((fj - 0.5).abs());
    if best.map_or(true, |b| out < b.0) { best = Some((out, (fi, fj))); }
  }
  best.map(|b| b.1)
}

/// Geometric adjacency from the reference geometry only: the two cells are the same cell or share at least one vertex
/// (two of their reference vertices are closer than 1e-3 cell size).
pub fn cells_adjacent(depth: u8, a: u64, b: u64) -> bool {
  if a == b { return true; }
  let (va, vb) = (ref_vertices(depth, a), ref_vertices(depth, b));
  let tol = 1e-3 / nside(depth) as f64;
  for p in va.iter() { for q in vb.iter() { if (p.1 - q.1).abs() <= tol && dist(*p, *q) <= tol { return true; } } }
  false
}

/// Positions given with a longitude many turns away: |lon|.4/pi carries a relative rounding error of a few eps, i.e. an absolute
/// uncertainty of a few eps.|lon| on the position itself (1e-11 rad at 1e5 rad). `base` (the statement's tolerance) up to 50 rad.
pub fn far_tol(base: f64, lon: f64) -> f64 { base.max(16.0 * f64::EPSILON * lon.abs()) }
