//! Signature predicates of the known findings. A predicate is a narrow deterministic test on the
//! violation signature and the failing input; it only suppresses when the id is listed with
//! status "known" in /verif/known_findings.json (ids are passed on the command line by ./check).
use crate::util::{Case, FindingPred};

pub const TRANS_LAT: f64 = 0.7297276562269663;

pub static SIGNATURES: &[(&str, FindingPred)] = &[
  ("R5", r5_bsd),
  ("R5", r5_cone_miss),
];

/// R5 seen through the coverage queries (C05, C13 circular case): a miss whose missed cell lies outside the 3x3 block
/// of the start depth, for a cone in the R5 zone (|lat| > asin(2/3), within 0.15 rad in longitude of a meridian k.pi/2,
/// r / threshold(start depth) in (0.95, 1)).
fn r5_cone_miss(sig: &str, c: &Case) -> bool {
  if sig != "cone-coverage-misses-a-cell-containing-a-point-of-the-cone" && sig != "circular-ellipse-misses-a-cell-touched-by-the-cone" { return false; }
  if c.get("ratio").is_none() || c.get("dlon_seam").is_none() || c.get("in_start_block").is_none() { return false; }
  let (ratio, dl, lat) = (c.gf("ratio"), c.gf("dlon_seam"), c.gf("lat"));
  !c.gb("in_start_block") && lat.abs() > TRANS_LAT && dl <= 0.15 && ratio > 0.95 && ratio < 1.0
}

/// R5 — best_starting_depth table too large at the thin Collignon cells next to polar-cap seams:
/// C16: sig = containment claim, |lat| > asin(2/3), centre within 0.15 rad (in longitude) of a meridian k.pi/2,
/// r / threshold(start depth) in (0.95, 1).
fn r5_bsd(sig: &str, c: &Case) -> bool {
  if sig != "cone-of-radius-r-leaves-the-centre-cell-and-its-neighbours-at-best_starting_depth" { return false; }
  if c.get("ratio").is_none() || c.get("dlon_seam").is_none() { return false; }
  let (ratio, dl, lat) = (c.gf("ratio"), c.gf("dlon_seam"), c.gf("lat"));
  lat.abs() > TRANS_LAT && dl <= 0.15 && ratio > 0.95 && ratio < 1.0
}
