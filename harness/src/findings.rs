//! Signature predicates of the known findings. A predicate is a narrow deterministic test on the
//! violation signature and the failing input; it only suppresses when the id is listed with
//! status "known" in /verif/known_findings.json (ids are passed on the command line by ./check).
use crate::util::{Case, FindingPred};

pub const TRANS_LAT: f64 = 0.7297276562269663;

pub static SIGNATURES: &[(&str, FindingPred)] = &[
  ("R17", r17_tiny_polygon),
];

/// R17 — polygon predicates built on un-normalised cross products: ill-conditioned (eps / R^2) for polygons whose
/// bounding radius is below 1e-6 rad. Any of the listed C12 polygon violations (mon=poly) with R < 1e-6 rad.
fn r17_tiny_polygon(sig: &str, c: &Case) -> bool {
  if c.mon() != "poly" || c.get("R").is_none() { return false; }
  let known_sigs = ["Polygon::contains-differs-from-the-geometric-definition", "cell-flagged-full-has-a-vertex-or-centre-outside-the-polygon",
    "reported-cell-farther-than-R+2-cell-radii", "polygon-vertex-cell-missing"];
  if !known_sigs.contains(&sig) { return false; }
  c.gf("R") < 1e-6
}
