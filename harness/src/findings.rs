//! Signature predicates of the known findings. A predicate is a narrow deterministic test on the
//! violation signature and the failing input; it only suppresses when the id is listed with
//! status "known" in /verif/known_findings.json (ids are passed on the command line by ./check).
use crate::util::{Case, FindingPred};

pub const TRANS_LAT: f64 = 0.7297276562269663;

pub static SIGNATURES: &[(&str, FindingPred)] = &[
];
