//! Signature predicates of the known findings. A predicate is a narrow deterministic test on the
//! violation signature and the failing input; it only suppresses when the id is listed with
//! status "known" in /verif/known_findings.json (ids are passed on the command line by ./check).
use crate::util::{Case, FindingPred};

pub const TRANS_LAT: f64 = 0.7297276562269663;

pub static SIGNATURES: &[(&str, FindingPred)] = &[
  ("R5", r5_bsd),
  ("R5", r5_cone_miss),
  ("R17", r17_tiny_polygon),
  ("R21", r21_exact_lon0),
];

/// R21 — exact mode, edge crossing lon = 0 inside a polar cap: arc_special_point_in_pc builds the sub-arc of the
/// first quarter with the normal of the wrong meridian plane; the "special point" may lie on the great circle beyond
/// the end of the edge and its cell is added to the coverage (a cell too far from the polygon).
fn r21_exact_lon0(sig: &str, c: &Case) -> bool {
  if c.mon() != "poly" || sig != "reported-cell-farther-than-R+2-cell-radii" || !c.gb("exact") { return false; }
  let (vl, vb) = (c.gfl("vl"), c.gfl("vb"));
  let crosses0 = vl.iter().any(|&l| l < 1.0) && vl.iter().any(|&l| l > 5.0);
  let in_cap = vb.iter().any(|&b| b.abs() > TRANS_LAT);
  crosses0 && in_cap
}

/// R17 — polygon predicates built on un-normalised cross products: ill-conditioned (eps / R^2) for polygons whose
/// bounding radius is below 1e-6 rad. Any C12 polygon violation (mon=poly) with R < 1e-6 rad.
fn r17_tiny_polygon(sig: &str, c: &Case) -> bool {
  if c.mon() != "poly" || c.get("R").is_none() { return false; }
  let known_sigs = ["Polygon::contains-differs-from-the-geometric-definition", "cell-flagged-full-has-a-vertex-or-centre-outside-the-polygon",
    "reported-cell-farther-than-R+2-cell-radii", "polygon-vertex-cell-missing"];
  if !known_sigs.contains(&sig) { return false; }
  c.gf("R") < 1e-6
}

/// R5 seen through the coverage queries (C05, C13 circular case): a miss whose missed cell lies outside the 3x3 block
/// of the start depth, for a cone in the R5 zone (|lat| > asin(2/3), within 0.15 rad in longitude of a meridian k.pi/2,
/// r / threshold(start depth) in (0.95, 1)).
fn r5_cone_miss(sig: &str, c: &Case) -> bool {
  if sig != "cone-coverage-misses-a-cell-containing-a-point-of-the-cone" && sig != "circular-ellipse-misses-a-cell-touched-by-the-cone" { return false; }
  if c.get("ratio").is_none() || c.get("dlon_seam").is_none() || c.get("in_start_block").is_none() { return false; }
  let (ratio, dl, lat) = (c.gf("ratio"), c.gf("dlon_seam"), c.gf("lat"));
  !c.gb("in_start_block") && lat.abs() > TRANS_LAT && dl <= 0.15 && ratio > 0.95 && ratio < 1.0
}

/// R5 — best_starting_depth table too large at the thin Collignon cells next to polar-cap seams:
/// C16: sig = containment claim, |lat| > asin(2/3), centre within 0.15 rad (in longitude) of a meridian k.pi/2,
/// r / threshold(start depth) in (0.95, 1).
fn r5_bsd(sig: &str, c: &Case) -> bool {
  if sig != "cone-of-radius-r-leaves-the-centre-cell-and-its-neighbours-at-best_starting_depth" { return false; }
  if c.get("ratio").is_none() || c.get("dlon_seam").is_none() { return false; }
  let (ratio, dl, lat) = (c.gf("ratio"), c.gf("dlon_seam"), c.gf("lat"));
  lat.abs() > TRANS_LAT && dl <= 0.15 && ratio > 0.95 && ratio < 1.0
}
