//! Signature predicates of the known findings. A predicate is a narrow deterministic test on the
//! violation signature and the failing input; it only suppresses when the id is listed with
//! status "known" in /verif/known_findings.json (ids are passed on the command line by ./check).
use crate::util::{Case, FindingPred};

pub const TRANS_LAT: f64 = 0.7297276562269663;

pub static SIGNATURES: &[(&str, FindingPred)] = &[
  ("R5", r5_bsd),
  ("R5", r5_cone_miss),
  ("R17", r17_tiny_polygon),
];

/// The table SMALLER_EDGE2OPEDGE_DIST as it was when R5 was recorded (values observed by bisection on the public
/// best_starting_depth of the pinned tree). The R5 signature is expressed against THESE values, so that a change of the
/// table (or of the search) is not hidden behind the known finding.
pub const R5_TABLE: [f64; 30] = [
  0.8410686705685088, 0.37723631722170053, 0.18256386461918295, 0.09000432499034523, 0.04470553761855741, 0.02228115704023076,
  0.011122977211214961, 0.005557125022105058, 0.0027774761500209185, 0.0013884670480328143, 6.941658374603201E-4, 3.4706600585087755E-4,
  1.7352877579970442E-4, 8.676333125510362E-5, 4.338140148342286E-5, 2.1690634707822447E-5, 1.084530084565172E-5, 5.422646295795749E-6,
  2.711322116099695E-6, 1.3556608000873442E-6, 6.778303355805395E-7, 3.389151516386149E-7, 1.69457571754776E-7, 8.472878485272006E-8,
  4.236439215502565E-8, 2.1182195982014308E-8, 1.0591097960375205E-8, 5.295548939447981E-9, 2.647774429917369E-9, 1.3238871881399636E-9];

/// (start depth, r / table[start depth]) according to the recorded table; None if r >= table[0]
fn r5_ratio(r: f64) -> Option<(usize, f64)> {
  if !(r < R5_TABLE[0]) { return None; }
  let d = (0..30).rev().find(|&k| r < R5_TABLE[k]).unwrap_or(0);
  Some((d, r / R5_TABLE[d]))
}
fn r5_zone(r: f64, lon: f64, lat: f64) -> bool {
  let q = std::f64::consts::FRAC_PI_2;
  let dl = { let m = lon.rem_euclid(q); m.min(q - m) };
  // the *cone* (not only its centre) comes within 0.15 rad in longitude of a seam meridian: at coarse depths the radius is
  // itself larger than that band (first seen at depth 2, r = 0.18 rad, centre 0.18 rad from the seam)
  let half_width = if lat.abs() + r >= q { std::f64::consts::PI } else { (r.sin() / lat.cos()).min(1.0).asin() };
  match r5_ratio(r) { Some((_, ratio)) => lat.abs() > TRANS_LAT && dl <= 0.15 + half_width && ratio > 0.95 && ratio < 1.0, None => false }
}

/// R5 — best_starting_depth table too large at the thin Collignon cells next to polar-cap seams.
/// C16: sig = containment claim, |lat| > asin(2/3), centre within 0.15 rad (in longitude) of a meridian k.pi/2,
/// r / table(start depth) in (0.95, 1) for the table as recorded, and the function returned that very start depth.
fn r5_bsd(sig: &str, c: &Case) -> bool {
  if sig != "cone-of-radius-r-leaves-the-centre-cell-and-its-neighbours-at-best_starting_depth" { return false; }
  if c.get("r").is_none() || c.get("start_depth").is_none() { return false; }
  let r = c.gf("r");
  match r5_ratio(r) { Some((d, _)) => d as u64 == c.gu("start_depth") && r5_zone(r, c.gf("lon"), c.gf("lat")), None => false }
}

/// R5 seen through the coverage queries (C05, C13 circular case): a miss whose missed cell lies outside the 3x3 block
/// of the start depth, for a cone in the R5 zone (same predicate on the recorded table).
fn r5_cone_miss(sig: &str, c: &Case) -> bool {
  let r = if sig == "cone-coverage-misses-a-cell-containing-a-point-of-the-cone" { c.get("r").map(|_| c.gf("r")) }
    else if sig == "circular-ellipse-misses-a-cell-touched-by-the-cone" { c.get("a").map(|_| c.gf("a")) } else { None };
  let r = match r { Some(r) => r, None => return false };
  if c.get("in_start_block").is_none() { return false; }
  !c.gb("in_start_block") && r5_zone(r, c.gf("lon"), c.gf("lat"))
}

/// R17 — polygon predicates built on un-normalised cross products: ill-conditioned (eps / R^2) for polygons whose
/// bounding radius is below 1e-6 rad. Any of the listed C12 polygon violations (mon=poly) with R < 1e-6 rad.
fn r17_tiny_polygon(sig: &str, c: &Case) -> bool {
  if c.mon() != "poly" || c.get("R").is_none() { return false; }
  let known_sigs = ["Polygon::contains-differs-from-the-geometric-definition", "cell-flagged-full-has-a-vertex-or-centre-outside-the-polygon",
    "reported-cell-farther-than-R+2-cell-radii", "polygon-vertex-cell-missing"];
  if !known_sigs.contains(&sig) { return false; }
  c.gf("R") < 1e-6
}
