//! Seeded generators of hostile inputs.
use crate::refm::*;
use crate::util::*;
use std::f64::consts::PI;

pub const LAT_OF_SQUARE_CELL: f64 = 0.3993401994789777;

/// class tags of a position (used for the evidence "hard class" accounting)
pub fn point_class(lon: f64, lat: f64) -> &'static str {
  let tl = trans_lat();
  let m = (lon.abs() / (PI / 4.0)).round() * (PI / 4.0);
  if (lat.abs() - PI / 2.0).abs() < 1e-9 { "pole" }
  else if lon.abs() >= TWO_PI { "lon>=2pi" }
  else if lon < 0.0 { "lon<0" }
  else if (lat.abs() - tl).abs() < 1e-12 { "transition-lat" }
  else if (lon.abs() - m).abs() < 1e-12 { "meridian-k.pi/4" }
  else { "" }
}

/// the special meridians/latitudes x ulp offsets
pub fn grid_points() -> Vec<(f64, f64)> {
  let mut v = Vec::new();
  let tl = trans_lat();
  let lats = [0.0, tl, -tl, PI / 2.0, -PI / 2.0, 0.5, -0.5, 1.2, -1.2, PI / 2.0 - 1e-4, -PI / 2.0 + 1e-4, LAT_OF_SQUARE_CELL, -LAT_OF_SQUARE_CELL, 1.5707, -1.5707];
  for k in 0..=64 {
    let lon0 = k as f64 * PI / 4.0 - 8.0 * PI;
    for &lat0 in lats.iter() {
      for dl in -2..=2 { for db in -2..=2 {
        let lon = nudge(lon0, dl);
        let lat = nudge(lat0, db);
        if lat.abs() <= PI / 2.0 { v.push((lon, lat)); }
      }}
    }
  }
  v
}

/// uniform sphere points shifted by -4..+4 turns
pub fn sphere_points(rng: &mut Rng, n: usize) -> Vec<(f64, f64)> {
  // mostly within +-4 turns; one point in 16 up to +-30 turns, one in 64 up to +-10^6 turns (the sum is rounded: a nearby position,
  // judged as given with a tolerance that follows the ulp of the longitude)
  (0..n).map(|_| { let (lon, lat) = rng.sphere(); let k = match rng.below(64) { 0 => (rng.log_uniform(30.0, 1e6) * if rng.coin() { 1.0 } else { -1.0 }).round(), 1..=4 => rng.below(61) as f64 - 30.0, _ => rng.below(9) as f64 - 4.0 }; (lon + k * TWO_PI, lat) }).collect()
}

/// points on cell borders (vertices and random edge points) of random cells at random depths, x {-1,0,1 ulp}^2
pub fn border_points(rng: &mut Rng, n: usize, nudges: bool) -> Vec<(f64, f64)> {
  let mut v = Vec::new();
  for _ in 0..n {
    let depth = rng.below(30) as u8;
    let nh = n_hash(depth);
    let h = if rng.below(3) == 0 { let cs = sample_cells(rng, depth, 0); cs[rng.below(cs.len() as u64) as usize] } else { rng.below(nh) };
    let (cx, cy) = cell_center_proj(depth, h);
    let ns = nside(depth) as f64;
    let a = rng.f() * 2.0 - 1.0;
    let cands = [(cx, cy - 1.0 / ns), (cx + 1.0 / ns, cy), (cx, cy + 1.0 / ns), (cx - 1.0 / ns, cy),
      (cx + a / ns / 2.0 + 0.5 / ns, cy + a / ns / 2.0 - 0.5 / ns),
      (cx + a / ns / 2.0 - 0.5 / ns, cy - a / ns / 2.0 - 0.5 / ns),
      (cx + a / ns / 2.0 + 0.5 / ns, cy - a / ns / 2.0 + 0.5 / ns),
      (cx + a / ns / 2.0 - 0.5 / ns, cy + a / ns / 2.0 + 0.5 / ns)];
    for &(x, y) in cands.iter() {
      if y.abs() > 2.0 { continue; }
      let (lon, lat) = ref_unproj(x.rem_euclid(8.0), y);
      if nudges {
        for dl in -1..=1 { for db in -1..=1 {
          let la = nudge(lat, db);
          if la.abs() <= PI / 2.0 { v.push((nudge(lon, dl), la)); }
        }}
      } else { v.push((lon, lat)); }
    }
  }
  v
}

/// all hostile points; `n` scales the random parts
pub fn hostile_points(rng: &mut Rng, n: usize) -> Vec<(f64, f64)> {
  let mut v = grid_points();
  v.extend(sphere_points(rng, n));
  v.extend(border_points(rng, n / 8 + 1, true));
  // near-pole and near-transition clouds
  let tl = trans_lat();
  for _ in 0..n / 4 {
    let lon = rng.f() * TWO_PI;
    let s = if rng.coin() { 1.0 } else { -1.0 };
    match rng.below(3) {
      0 => v.push((lon, s * (PI / 2.0 - rng.log_uniform(1e-16, 1e-2)))),
      1 => v.push((lon, s * (tl + (rng.f() - 0.5) * rng.log_uniform(1e-16, 1e-3)))),
      _ => { let k = rng.below(9) as f64; v.push((k * PI / 4.0 + (rng.f() - 0.5) * rng.log_uniform(1e-16, 1e-3), s * rng.f() * PI / 2.0)); }
    }
  }
  // joint class: a latitude a controlled distance (1e-13 .. 1e-6 rad, either side) from the transition latitude AND a longitude that puts
  // the point on an edge of a cell of depth 24..29 (the two boundaries together: region dispatch x cell-border rounding), half of them
  // within a few cells of a seam meridian k.pi/2 (the 8 points where three base cells meet)
  for _ in 0..n / 2 {
    let depth = 24 + rng.below(6) as u8; let ns = nside(depth) as f64;
    let s = if rng.coin() { 1.0 } else { -1.0 };
    let lat = s * (tl + (if rng.coin() { 1.0 } else { -1.0 }) * rng.log_uniform(1e-13, 1e-6));
    let lon0 = if rng.coin() { (rng.below(5) as f64) * PI / 2.0 + (rng.f() - 0.5) * 8.0 / ns } else { rng.f() * TWO_PI };
    for img in ref_proj_images(lon0.rem_euclid(TWO_PI), lat, 0.0).into_iter().take(1) {
      let (x0, y0) = img;
      let (sgn, c) = if rng.coin() { (1.0, x0 + y0) } else { (-1.0, x0 - y0) };
      let m = (c * ns / 2.0).round() + (rng.below(3) as f64 - 1.0);
      let x_edge = m * 2.0 / ns - sgn * y0;
      if !(x_edge >= 0.0 && x_edge < 8.0) { continue; }
      let p = ref_unproj(x_edge, y0);
      let (ul, ub) = (rng.below(5) as i64 - 2, rng.below(3) as i64 - 1);
      v.push((crate::util::nudge(p.0, ul), crate::util::nudge(p.1, ub)));
    }
  }
  for p in v.iter_mut() { if p.1 > PI / 2.0 { p.1 = PI / 2.0; } if p.1 < -PI / 2.0 { p.1 = -PI / 2.0; } }
  v
}
/// hostile points restricted to lon in [0, 2pi]
pub fn hostile_points_std(rng: &mut Rng, n: usize) -> Vec<(f64, f64)> {
  hostile_points(rng, n).into_iter().filter(|p| p.0 >= 0.0 && p.0 <= TWO_PI).collect()
}

/// cells by class: 4 corners / border runs / second ring / centre of each base cell, plus `n` uniform cells.
/// Exhaustive when the depth is small enough (12*4^d <= max(4n, 192)).
pub fn sample_cells(rng: &mut Rng, depth: u8, n: usize) -> Vec<u64> {
  let nh = n_hash(depth);
  if nh <= (4 * n as u64).max(192) { return (0..nh).collect(); }
  let ns = nside(depth);
  let mut v = Vec::new();
  for d0 in 0..12u64 {
    let base = d0 << (2 * depth);
    let m = ns as u32 - 1;
    let o = 1.min(m);
    for &(i, j) in [(0u32, 0u32), (m, 0), (0, m), (m, m), (o, 0), (0, o), (m, m - o), (m - o, m), (m, o), (o, m), (m - o, 0), (0, m - o),
                    (m / 2, 0), (0, m / 2), (m, m / 2), (m / 2, m), (m / 2, m / 2), (o, o), (m - o, m - o), (o, m - o), (m - o, o)].iter() {
      v.push(base | interleave(i, j));
    }
    for _ in 0..3 { let k = rng.below(ns) as u32; v.push(base | interleave(k, 0)); v.push(base | interleave(0, k)); v.push(base | interleave(k, m)); v.push(base | interleave(m, k)); }
    // inner cells whose coordinates sit next to a power of two (carry / integer-width boundaries of the bit arithmetic): 2^p - 1, 2^p,
    // and odd multiples q.2^p - 1 of a high power
    if depth >= 3 { for _ in 0..4 {
      let p = 1 + rng.below(depth as u64 - 1) as u32; let q = 1 + 2 * rng.below(((ns >> p) / 2).max(1)) as u32;
      let a = ((q << p) - 1).min(m); let b = (a + 1).min(m); let r = rng.below(ns) as u32;
      for &(i, j) in [(a, r), (b, r), (r, a), (r, b), (a, a), (a, b), (b, a)].iter() { v.push(base | interleave(i, j)); }
    } }
  }
  for _ in 0..n { v.push(rng.below(nh)); }
  v
}
/// is the cell on the border of its base cell / at a corner of it
pub fn cell_class(depth: u8, h: u64) -> &'static str {
  if depth == 0 { return "base"; }
  let (_, i, j) = split(depth, h);
  let m = nside(depth) as u32 - 1;
  let bi = i == 0 || i == m; let bj = j == 0 || j == m;
  if bi && bj { "base-corner" } else if bi || bj { "base-border" } else if i == 1 || j == 1 || i + 1 == m || j + 1 == m { "second-ring" } else { "" }
}

/// thresholds of best_starting_depth located by bisection on the public function:
/// thr[d] = smallest radius (to 1 ulp-ish) at which best_starting_depth < d, i.e. the table limit of depth d
pub fn bsd_thresholds() -> Vec<f64> {
  let mut thr = vec![0.0f64; 30];
  // depth-0 limit: has_best_starting_depth boundary
  let mut lo = 0.1f64; let mut hi = 4.0f64;
  for _ in 0..200 { let mid = 0.5 * (lo + hi); if mid == lo || mid == hi { break; } if cdshealpix::has_best_starting_depth(mid) { lo = mid; } else { hi = mid; } }
  thr[0] = hi;
  for d in 1..30u8 {
    let mut lo = 1e-12f64; let mut hi = thr[0];
    for _ in 0..200 { let mid = 0.5 * (lo + hi); if mid == lo || mid == hi { break; } if cdshealpix::best_starting_depth(mid) >= d { lo = mid; } else { hi = mid; } }
    thr[d as usize] = hi;
  }
  thr
}

/// a cone centre: sphere / poles / seams / transition
pub fn cone_center(rng: &mut Rng) -> (f64, f64) {
  let (mut lon, mut lat) = rng.sphere();
  let tl = trans_lat();
  match rng.below(10) {
    0 => { lat = PI / 2.0 - rng.log_uniform(1e-12, 0.05); }
    1 => { lat = -PI / 2.0 + rng.log_uniform(1e-12, 0.05); }
    2 => { lon = (rng.below(8) as f64) * PI / 4.0 + (rng.f() - 0.5) * rng.log_uniform(1e-12, 1e-2); }
    3 => { lat = (if rng.coin() { tl } else { -tl }) + (rng.f() - 0.5) * rng.log_uniform(1e-12, 1e-2); }
    4 => { lat = if rng.coin() { PI / 2.0 } else { -PI / 2.0 }; }
    5 => { lon = (rng.below(8) as f64) * PI / 4.0; }
    _ => {}
  }
  (lon.rem_euclid(TWO_PI), lat.max(-PI / 2.0).min(PI / 2.0))
}

/// out-of-range NESTED cell numbers: just above the limit, every "base cell" value that could alias a valid one after a
/// narrowing cast (256 + k, 65536 + k, 2^32 + k ...), high bits set over a valid low part, and random values
pub fn bad_cell_numbers(rng: &mut Rng, depth: u8) -> Vec<u64> {
  let nh = n_hash(depth); let s = 2 * depth as u32;
  let mut v = vec![nh, nh + 1, nh + 5, 2 * nh, u64::MAX, u64::MAX >> 1, u64::MAX - 1, 1u64 << 63];
  let low = |rng: &mut Rng| if s == 0 { 0 } else { rng.below(1u64 << s) };
  for &b in [12u64, 13, 15, 16, 17, 31, 32, 64, 127, 128, 255, 256, 257, 260, 267, 268, 511, 512, 523, 1024, 4096 + 3, 65535, 65536, 65536 + 11, (1 << 24) + 5, (1u64 << 32), (1u64 << 32) + 7, (1u64 << 40) + 2].iter() {
    if b.leading_zeros() > s { v.push((b << s) | low(rng)); v.push(b << s); }
  }
  for _ in 0..24 { let h = rng.next(); if h >= nh { v.push(h); } let h = rng.next() >> rng.below(40); if h >= nh { v.push(h); } }
  // a valid cell with one high bit set
  for k in [4u32, 5, 8, 9, 16, 31, 32, 33, 59, 62, 63].iter() { let bit = s + *k; if bit < 64 { let h = rng.below(nh) | (1u64 << bit); if h >= nh { v.push(h); } } }
  v.sort(); v.dedup();
  v
}

/// The same direction expressed with a longitude outside [0, 2pi) one time in eight (the statements say "any centre" / "any position";
/// the sum lon + 2k.pi is rounded, i.e. this is a nearby position, judged as given)
pub fn any_turn(rng: &mut Rng, lon: f64) -> f64 {
  let l = lon.rem_euclid(TWO_PI);
  if rng.below(8) == 0 { let k = *rng.pick(&[-3.0, -2.0, -1.0, 1.0, 2.0, 33.0, -40.0, 1000.0]); l + k * TWO_PI } else { l }
}
