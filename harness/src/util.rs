//! Plumbing shared by all monitors: PRNG, panic capture, cases (replayable inputs), the per-run
//! context that accumulates judgements / classes / violations, and a tiny JSON writer.
use std::collections::{BTreeMap, HashSet};
use std::fmt::Write as _;
use std::panic;

// ---------------------------------------------------------------------------------------------
// PRNG (SplitMix64) — no external crate
// ---------------------------------------------------------------------------------------------
#[derive(Clone)]
pub struct Rng(pub u64);
impl Rng {
  pub fn new(seed: u64, stream: u64) -> Rng {
    let mut r = Rng(seed.wrapping_mul(0x9E3779B97F4A7C15) ^ stream.wrapping_mul(0xD1B54A32D192ED03) ^ 0x5851F42D4C957F2D);
    r.next(); r.next();
    r
  }
  pub fn next(&mut self) -> u64 {
    self.0 = self.0.wrapping_add(0x9E3779B97F4A7C15);
    let mut z = self.0;
    z = (z ^ (z >> 30)).wrapping_mul(0xBF58476D1CE4E5B9);
    z = (z ^ (z >> 27)).wrapping_mul(0x94D049BB133111EB);
    z ^ (z >> 31)
  }
  /// uniform in [0,1)
  pub fn f(&mut self) -> f64 { (self.next() >> 11) as f64 / (1u64 << 53) as f64 }
  pub fn below(&mut self, n: u64) -> u64 { if n == 0 { 0 } else { self.next() % n } }
  pub fn range(&mut self, lo: f64, hi: f64) -> f64 { lo + (hi - lo) * self.f() }
  pub fn coin(&mut self) -> bool { self.next() & 1 == 1 }
  pub fn log_uniform(&mut self, lo: f64, hi: f64) -> f64 { (lo.ln() + (hi.ln() - lo.ln()) * self.f()).exp() }
  pub fn pick<'a, T>(&mut self, v: &'a [T]) -> &'a T { &v[self.below(v.len() as u64) as usize] }
  /// uniform point on the sphere, lon in [0, 2pi)
  pub fn sphere(&mut self) -> (f64, f64) {
    let lon = self.f() * 2.0 * std::f64::consts::PI;
    let z = 2.0 * self.f() - 1.0;
    (lon, z.asin())
  }
}

/// move x by k ulps (k may be negative)
pub fn nudge(x: f64, k: i64) -> f64 {
  if k == 0 || !x.is_finite() { return x; }
  if x == 0.0 {
    return if k >= 0 { f64::from_bits(k as u64) } else { -f64::from_bits((-k) as u64) };
  }
  let b = x.to_bits() as i64;
  let nb = if x > 0.0 { b + k } else { b - k };
  f64::from_bits(nb as u64)
}

// ---------------------------------------------------------------------------------------------
// panic capture
// ---------------------------------------------------------------------------------------------
thread_local! {
  static LAST_PANIC: std::cell::RefCell<String> = std::cell::RefCell::new(String::new());
  static IN_CATCH: std::cell::Cell<u32> = std::cell::Cell::new(0);
}
pub fn install_quiet_panic_hook() {
  panic::set_hook(Box::new(|info| {
    let loc = info.location().map(|l| format!("{}:{}", l.file(), l.line())).unwrap_or_default();
    let msg = if let Some(s) = info.payload().downcast_ref::<&str>() { s.to_string() }
      else if let Some(s) = info.payload().downcast_ref::<String>() { s.clone() } else { String::from("?") };
    let mut m = msg; m.truncate(160);
    // a panic outside of catch() is a bug of the harness itself: make it visible (the run is then inconclusive)
    if IN_CATCH.with(|c| c.get()) == 0 { eprintln!("HARNESS PANIC (not inside a monitored call): {} @ {}", m, loc); }
    LAST_PANIC.with(|c| *c.borrow_mut() = format!("{} @ {}", m, loc));
  }));
}
/// Run `f`, turning a panic into `Err("message @ file:line")`.
pub fn catch<R, F: FnOnce() -> R>(f: F) -> Result<R, String> {
  IN_CATCH.with(|c| c.set(c.get() + 1));
  let r = panic::catch_unwind(panic::AssertUnwindSafe(f));
  IN_CATCH.with(|c| c.set(c.get() - 1));
  r.map_err(|_| LAST_PANIC.with(|c| c.borrow().clone()))
}
/// location part ("src/nested/mod.rs:554") of a captured panic string
pub fn panic_loc(p: &str) -> &str { p.rsplit(" @ ").next().unwrap_or("") }

// ---------------------------------------------------------------------------------------------
// "last case" files: written before a call that might kill the process (stack overflow, allocation abort),
// which catch_unwind cannot see. ./check attributes an abnormal exit to the case found there.
// ---------------------------------------------------------------------------------------------
static LASTCASE_PATH: std::sync::OnceLock<String> = std::sync::OnceLock::new();
pub fn set_lastcase_path(p: &str) { let _ = LASTCASE_PATH.set(p.to_string()); }
thread_local! { static LASTCASE_FILE: std::cell::RefCell<Option<std::fs::File>> = std::cell::RefCell::new(None); }
pub fn precall(case: &Case) {
  use std::io::{Seek, SeekFrom, Write};
  if let Some(base) = LASTCASE_PATH.get() {
    LASTCASE_FILE.with(|f| {
      let mut f = f.borrow_mut();
      if f.is_none() { let id = format!("{:?}", std::thread::current().id()).replace(|c: char| !c.is_ascii_digit(), ""); *f = std::fs::OpenOptions::new().create(true).write(true).open(format!("{}.{}", base, id)).ok(); }
      if let Some(file) = f.as_mut() { let line = format!("{}\n", case.to_line()); let _ = file.seek(SeekFrom::Start(0)); let _ = file.write_all(line.as_bytes()); let _ = file.set_len(line.len() as u64); }
    });
  }
}
pub fn postcall() {
  if LASTCASE_PATH.get().is_some() { LASTCASE_FILE.with(|f| { if let Some(file) = f.borrow_mut().as_mut() { let _ = file.set_len(0); } }); }
}

// ---------------------------------------------------------------------------------------------
// Cases: replayable inputs as "k=v k=v" strings (floats as raw bit patterns)
// ---------------------------------------------------------------------------------------------
#[derive(Clone, Debug, Default)]
pub struct Case { pub kv: Vec<(String, String)> }
impl Case {
  pub fn new(mon: &str) -> Case { Case { kv: vec![("mon".into(), mon.into())] } }
  pub fn u(mut self, k: &str, v: u64) -> Case { self.kv.push((k.into(), v.to_string())); self }
  pub fn i(mut self, k: &str, v: i64) -> Case { self.kv.push((k.into(), v.to_string())); self }
  pub fn f(mut self, k: &str, v: f64) -> Case { self.kv.push((k.into(), format!("f{:016x}", v.to_bits()))); self }
  pub fn s(mut self, k: &str, v: &str) -> Case { self.kv.push((k.into(), v.replace(' ', "_"))); self }
  pub fn b(mut self, k: &str, v: bool) -> Case { self.kv.push((k.into(), if v { "1".into() } else { "0".into() })); self }
  pub fn fl(mut self, k: &str, v: &[f64]) -> Case {
    let s: Vec<String> = v.iter().map(|x| format!("f{:016x}", x.to_bits())).collect();
    self.kv.push((k.into(), s.join(","))); self
  }
  pub fn ul(mut self, k: &str, v: &[u64]) -> Case {
    let s: Vec<String> = v.iter().map(|x| x.to_string()).collect();
    self.kv.push((k.into(), s.join(","))); self
  }
  pub fn get(&self, k: &str) -> Option<&str> { self.kv.iter().find(|(a, _)| a == k).map(|(_, b)| b.as_str()) }
  pub fn mon(&self) -> &str { self.get("mon").unwrap_or("") }
  pub fn gu(&self, k: &str) -> u64 { self.get(k).and_then(|s| s.parse().ok()).unwrap_or_else(|| panic!("case: missing u64 {}", k)) }
  pub fn gi(&self, k: &str) -> i64 { self.get(k).and_then(|s| s.parse().ok()).unwrap_or_else(|| panic!("case: missing i64 {}", k)) }
  pub fn gb(&self, k: &str) -> bool { self.get(k).map(|s| s == "1").unwrap_or(false) }
  pub fn gf(&self, k: &str) -> f64 { parse_f(self.get(k).unwrap_or_else(|| panic!("case: missing f64 {}", k))) }
  pub fn gfl(&self, k: &str) -> Vec<f64> { let s = self.get(k).unwrap_or(""); if s.is_empty() { vec![] } else { s.split(',').map(parse_f).collect() } }
  pub fn gul(&self, k: &str) -> Vec<u64> { let s = self.get(k).unwrap_or(""); if s.is_empty() { vec![] } else { s.split(',').map(|x| x.parse().unwrap()).collect() } }
  pub fn to_line(&self) -> String { self.kv.iter().map(|(k, v)| format!("{}={}", k, v)).collect::<Vec<_>>().join(" ") }
  pub fn parse(line: &str) -> Case {
    let mut c = Case::default();
    for tok in line.split_whitespace() { if let Some(p) = tok.find('=') { c.kv.push((tok[..p].to_string(), tok[p + 1..].to_string())); } }
    c
  }
  /// human-readable rendering (floats decoded) for evidence samples
  pub fn pretty(&self) -> String {
    self.kv.iter().map(|(k, v)| {
      let vv: Vec<String> = v.split(',').map(|x| if x.len() == 17 && x.starts_with('f') && u64::from_str_radix(&x[1..], 16).is_ok() { format!("{:?}", parse_f(x)) } else { x.to_string() }).collect();
      format!("{}={}", k, vv.join(","))
    }).collect::<Vec<_>>().join(" ")
  }
}
fn parse_f(s: &str) -> f64 {
  if let Some(h) = s.strip_prefix('f') { if let Ok(b) = u64::from_str_radix(h, 16) { return f64::from_bits(b); } }
  s.parse().unwrap_or_else(|_| panic!("case: bad float {}", s))
}

// ---------------------------------------------------------------------------------------------
// JSON writer (strings only need escaping)
// ---------------------------------------------------------------------------------------------
pub fn jstr(s: &str) -> String {
  let mut o = String::with_capacity(s.len() + 2);
  o.push('"');
  for c in s.chars() {
    match c {
      '"' => o.push_str("\\\""), '\\' => o.push_str("\\\\"), '\n' => o.push_str("\\n"), '\t' => o.push_str("\\t"), '\r' => o.push_str("\\r"),
      c if (c as u32) < 0x20 => { let _ = write!(o, "\\u{:04x}", c as u32); }
      c => o.push(c),
    }
  }
  o.push('"');
  o
}
pub fn jnum(x: f64) -> String { if x.is_finite() { format!("{:e}", x) } else { jstr(&format!("{}", x)) } }

// ---------------------------------------------------------------------------------------------
// Run context
// ---------------------------------------------------------------------------------------------
#[derive(Clone, Debug)]
pub struct Violation { pub sig: String, pub case: Case, pub detail: String }

pub type FindingPred = fn(sig: &str, case: &Case) -> bool;

#[derive(Clone)]
pub struct Ctx {
  pub prop: String,
  pub thorough: bool,
  pub seed: u64,
  pub pass: String,
  /// judgements made by an oracle
  pub evals: u64,
  /// fingerprints of distinct cases that fell in a hard class
  pub nontrivial: BTreeMap<String, HashSet<u64>>,
  /// distinct cases counted by construction (exhaustive enumerations), per class
  pub enumerated: BTreeMap<String, u64>,
  pub hist: BTreeMap<String, u64>,
  pub worst: BTreeMap<String, f64>,
  pub samples: Vec<String>,
  pub violations: Vec<Violation>,
  pub n_violations: u64,
  pub known_hits: BTreeMap<String, (u64, String)>,
  pub inconclusive: Vec<String>,
  pub n_oracle_ambiguous: u64,
  /// ids of findings listed with status "known" in known_findings.json (given on the command line)
  pub known_ids: Vec<String>,
  /// which property's violations count (others are recorded under hist "info:…")
  pub notes: Vec<String>,
}

impl Ctx {
  pub fn new(prop: &str, thorough: bool, seed: u64, pass: &str, known_ids: &[String]) -> Ctx {
    Ctx { prop: prop.into(), thorough, seed, pass: pass.into(), evals: 0, nontrivial: BTreeMap::new(), enumerated: BTreeMap::new(), hist: BTreeMap::new(), worst: BTreeMap::new(),
      samples: Vec::new(), violations: Vec::new(), n_violations: 0, known_hits: BTreeMap::new(), inconclusive: Vec::new(), n_oracle_ambiguous: 0,
      known_ids: known_ids.to_vec(), notes: Vec::new() }
  }
  pub fn fork(&self) -> Ctx { Ctx::new(&self.prop, self.thorough, self.seed, &self.pass, &self.known_ids) }
  #[inline] pub fn eval(&mut self) { self.evals += 1; }
  #[inline] pub fn evals_n(&mut self, n: u64) { self.evals += n; }
  pub fn bump(&mut self, k: &str) { *self.hist.entry(k.to_string()).or_insert(0) += 1; }
  pub fn bump_n(&mut self, k: &str, n: u64) { *self.hist.entry(k.to_string()).or_insert(0) += n; }
  /// record a distinct non-trivial case of class `class` identified by fingerprint words
  pub fn hard(&mut self, class: &str, fp: &[u64]) {
    let mut h: u64 = 0xcbf29ce484222325;
    for b in class.bytes() { h = (h ^ b as u64).wrapping_mul(0x100000001b3); }
    for &w in fp { h = (h ^ w).wrapping_mul(0x100000001b3); h ^= h >> 29; }
    if !self.nontrivial.contains_key(class) { self.nontrivial.insert(class.to_string(), HashSet::new()); }
    let set = self.nontrivial.get_mut(class).unwrap();
    // cap memory: beyond 2M distinct members of a class we stop counting (conservative)
    if set.len() < 2_000_000 { set.insert(h); }
  }
  pub fn n_nontrivial(&self) -> usize { self.nontrivial.values().map(|s| s.len()).sum::<usize>() + self.enumerated.values().sum::<u64>() as usize }
  /// `n` more distinct non-trivial cases of `class`, distinct by construction (an enumeration without repetition)
  pub fn enumerated(&mut self, class: &str, n: u64) { *self.enumerated.entry(class.to_string()).or_insert(0) += n; }
  pub fn worst_max(&mut self, k: &str, v: f64) { let e = self.worst.entry(k.to_string()).or_insert(f64::NEG_INFINITY); if v > *e { *e = v; } }
  pub fn sample(&mut self, case: &Case, note: &str) { if self.samples.len() < 12 { self.samples.push(format!("{}{}{}", case.pretty(), if note.is_empty() { "" } else { " => " }, note)); } }
  pub fn sample_force(&mut self, s: String) { if self.samples.len() < 40 { self.samples.push(s); } }
  pub fn inconclusive(&mut self, why: &str) { if self.inconclusive.len() < 20 { self.inconclusive.push(why.to_string()); } }
  /// report a violation of this run's property; suppressed (and counted) iff it matches a listed known finding
  pub fn violation(&mut self, sig: &str, case: Case, detail: String) {
    for (id, pred) in crate::findings::SIGNATURES.iter() {
      if self.known_ids.iter().any(|k| k == id) && pred(sig, &case) {
        let e = self.known_hits.entry(id.to_string()).or_insert((0, format!("{} :: {} :: {}", sig, case.pretty(), detail)));
        e.0 += 1;
        *self.hist.entry(format!("KNOWN:{}:{}{}", id, sig, case.get("cls").map(|c| format!("|{}", c)).unwrap_or_default())).or_insert(0) += 1;
        return;
      }
    }
    self.n_violations += 1;
    *self.hist.entry(format!("VIOLATION:{}{}", sig, case.get("cls").map(|c| format!("|{}", c)).unwrap_or_default())).or_insert(0) += 1;
    // keep the first few of each signature
    let cls = case.get("cls").unwrap_or("").to_string();
    let same = self.violations.iter().filter(|v| v.sig == sig && v.case.get("cls").unwrap_or("") == cls).count();
    if same < 3 && self.violations.len() < 120 { self.violations.push(Violation { sig: sig.to_string(), case, detail }); }
  }
  /// a violation of *another* property observed on the way (not counted for this run's verdict)
  pub fn info(&mut self, sig: &str) { *self.hist.entry(format!("info:{}", sig)).or_insert(0) += 1; }
  pub fn merge(&mut self, o: Ctx) {
    self.evals += o.evals;
    for (k, set) in o.nontrivial { let e = self.nontrivial.entry(k).or_insert_with(HashSet::new); for h in set { if e.len() < 2_000_000 { e.insert(h); } } }
    for (k, v) in o.enumerated { *self.enumerated.entry(k).or_insert(0) += v; }
    for (k, v) in o.hist { *self.hist.entry(k).or_insert(0) += v; }
    for (k, v) in o.worst { self.worst_max(&k, v); }
    for s in o.samples { if self.samples.len() < 12 { self.samples.push(s); } }
    for v in o.violations { let same = self.violations.iter().filter(|x| x.sig == v.sig && x.case.get("cls") == v.case.get("cls")).count(); if same < 3 && self.violations.len() < 120 { self.violations.push(v); } }
    self.n_violations += o.n_violations;
    for (k, v) in o.known_hits { let e = self.known_hits.entry(k).or_insert((0, v.1.clone())); e.0 += v.0; }
    for s in o.inconclusive { self.inconclusive(&s); }
    self.n_oracle_ambiguous += o.n_oracle_ambiguous;
    for n in o.notes { if !self.notes.contains(&n) { self.notes.push(n); } }
  }
  pub fn to_json(&self, rule: &str, assumptions: &[&str], wall_s: f64, extra: &BTreeMap<String, String>) -> String {
    let mut o = String::new();
    o.push_str("{\n");
    let _ = write!(o, " \"property_id\": {},\n \"pass\": {},\n \"thorough\": {},\n \"seed\": {},\n", jstr(&self.prop), jstr(&self.pass), self.thorough, self.seed);
    let _ = write!(o, " \"evaluations\": {},\n \"distinct_nontrivial\": {},\n \"rule\": {},\n", self.evals, self.n_nontrivial(), jstr(rule));
    let _ = write!(o, " \"classes\": {{{}}},\n", self.nontrivial.iter().map(|(k, v)| format!("{}: {}", jstr(k), v.len())).chain(self.enumerated.iter().map(|(k, v)| format!("{}: {}", jstr(&format!("{} (enumerated)", k)), v))).collect::<Vec<_>>().join(", "));
    let _ = write!(o, " \"samples\": [{}],\n", self.samples.iter().map(|s| jstr(s)).collect::<Vec<_>>().join(", "));
    let _ = write!(o, " \"histogram\": {{{}}},\n", self.hist.iter().map(|(k, v)| format!("{}: {}", jstr(k), v)).collect::<Vec<_>>().join(", "));
    let _ = write!(o, " \"worst\": {{{}}},\n", self.worst.iter().map(|(k, v)| format!("{}: {}", jstr(k), jnum(*v))).collect::<Vec<_>>().join(", "));
    let _ = write!(o, " \"extra\": {{{}}},\n", extra.iter().map(|(k, v)| format!("{}: {}", jstr(k), v)).collect::<Vec<_>>().join(", "));
    let _ = write!(o, " \"assumptions\": [{}],\n", assumptions.iter().map(|s| jstr(s)).collect::<Vec<_>>().join(", "));
    let _ = write!(o, " \"notes\": [{}],\n", self.notes.iter().map(|s| jstr(s)).collect::<Vec<_>>().join(", "));
    let _ = write!(o, " \"n_violations\": {},\n \"oracle_ambiguous\": {},\n", self.n_violations, self.n_oracle_ambiguous);
    let _ = write!(o, " \"violations\": [{}],\n", self.violations.iter().map(|v| format!("{{\"sig\": {}, \"case\": {}, \"pretty\": {}, \"detail\": {}}}", jstr(&v.sig), jstr(&v.case.to_line()), jstr(&v.case.pretty()), jstr(&v.detail))).collect::<Vec<_>>().join(",\n  "));
    let _ = write!(o, " \"known_hits\": [{}],\n", self.known_hits.iter().map(|(k, v)| format!("{{\"id\": {}, \"count\": {}, \"example\": {}}}", jstr(k), v.0, jstr(&v.1))).collect::<Vec<_>>().join(",\n  "));
    let _ = write!(o, " \"inconclusive\": [{}],\n", self.inconclusive.iter().map(|s| jstr(s)).collect::<Vec<_>>().join(", "));
    let _ = write!(o, " \"wall_s\": {}\n}}\n", wall_s);
    o
  }
}

/// Run `n_shards` closures on threads (each with its own forked context and stream number), merge.
/// Run a piece of a monitor; a panic that escapes it is attributed by its location: inside the harness sources -> the run is inconclusive
/// (a bug of the monitor); anywhere else (the crate under test, called with an input the monitor holds for valid, outside a `catch`) -> a
/// violation of the property being judged. The rest of that piece of work is lost either way.
pub fn run_guarded<F: FnOnce(&mut Ctx)>(ctx: &mut Ctx, f: F) {
  let r = panic::catch_unwind(panic::AssertUnwindSafe(|| f(ctx)));
  if r.is_err() {
    let p = LAST_PANIC.with(|c| c.borrow().clone());
    let loc = panic_loc(&p).to_string();
    if loc.contains("/harness/src/") || loc.contains("harness/src/") || loc.is_empty() { ctx.inconclusive(&format!("harness panic: {}", p)); }
    else { ctx.violation("crate-panics-on-an-input-the-monitor-holds-for-valid(unguarded-call)", Case::new("unguarded").s("at", &loc), p); }
  }
}

pub fn run_sharded<F>(ctx: &mut Ctx, n_shards: usize, f: F)
  where F: Fn(&mut Ctx, usize) + Sync {
  if n_shards <= 1 { run_guarded(ctx, |c| f(c, 0)); return; }
  let results: Vec<Ctx> = std::thread::scope(|s| {
    let hs: Vec<_> = (0..n_shards).map(|k| {
      let mut c = ctx.fork();
      let fr = &f;
      std::thread::Builder::new().stack_size(256 << 20).spawn_scoped(s, move || { run_guarded(&mut c, |c| fr(c, k)); c }).unwrap()
    }).collect();
    hs.into_iter().map(|h| h.join().expect("shard thread died")).collect()
  });
  for c in results { ctx.merge(c); }
}
