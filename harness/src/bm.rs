//! BMOC executable model (map deepest cell -> {absent, partial, full}) and the C09 invariant walker.
use crate::util::*;
use cdshealpix::nested::bmoc::{BMOCBuilderUnsafe, BMOC};

pub type CellT = (u8, u64, bool); // (depth, hash, is_full)

/// independent decoding of the raw entries (sentinel bit + flag)
pub fn cells_of(b: &BMOC) -> Vec<CellT> {
  let dm = b.get_depth_max();
  b.entries.iter().map(|&raw| {
    let full = raw & 1 == 1;
    let r = raw >> 1;
    let dd = (r.trailing_zeros() / 2) as u8;
    (dm.wrapping_sub(dd), r >> (1 + 2 * dd as u32), full)
  }).collect()
}

/// Some(is_full) if cell (depth, h) is covered by the hierarchical list (itself or an ancestor); binary search on sorted lists
pub fn covered(cells: &[CellT], depth: u8, h: u64) -> Option<bool> {
  for &(d, c, f) in cells { if d <= depth && (h >> (2 * (depth - d))) == c { return Some(f); } }
  None
}
/// index structure for many coverage queries: sorted ranges at depth `dm`
pub struct Cover { dm: u8, ranges: Vec<(u64, u64, bool)> }
impl Cover {
  pub fn new(dm: u8, cells: &[CellT]) -> Cover {
    let mut ranges: Vec<(u64, u64, bool)> = cells.iter().filter(|c| c.0 <= dm).map(|&(d, h, f)| { let s = 2 * (dm - d) as u32; (h << s, (h + 1) << s, f) }).collect();
    ranges.sort();
    Cover { dm, ranges }
  }
  /// cell (depth <= dm, h) covered by an entry (ancestor or itself)?
  pub fn get(&self, depth: u8, h: u64) -> Option<bool> {
    let s = 2 * (self.dm - depth) as u32; let lo = h << s;
    let i = self.ranges.partition_point(|r| r.0 <= lo);
    if i == 0 { return None; }
    let r = self.ranges[i - 1];
    if lo >= r.0 && ((h + 1) << s) <= r.1 { Some(r.2) } else { None }
  }
}

pub fn to_bmoc(dm: u8, cells: &[CellT]) -> BMOC {
  let mut b = BMOCBuilderUnsafe::new(dm, cells.len() + 1);
  for &(d, h, f) in cells { b.push(d, h, f); }
  b.to_bmoc()
}

/// model over the deepest cells of the first `nb` base cells... of the whole sky at depth dm (12*4^dm entries): 0 absent, 1 partial, 2 full
pub fn to_model(dm: u8, cells: &[CellT]) -> Vec<u8> {
  let n = (12u64 << (2 * dm)) as usize;
  let mut m = vec![0u8; n];
  for &(d, h, f) in cells {
    if d > dm { continue; }
    let s = 2 * (dm - d);
    let (a, e) = ((h << s) as usize, (((h + 1) << s) as usize).min(n));
    for x in a.min(n)..e { m[x] = if f { 2 } else { 1 }; }
  }
  m
}
/// canonical (packed) hierarchical list of a model in which every non-absent cell is full
pub fn canonical_moc(dm: u8, m: &[u8]) -> Vec<CellT> {
  fn rec(d: u8, h: u64, dm: u8, m: &[u8], out: &mut Vec<CellT>) {
    let s = 2 * (dm - d); let (a, e) = ((h << s) as usize, ((h + 1) << s) as usize);
    let sl = &m[a..e];
    if sl.iter().all(|&x| x == 2) { out.push((d, h, true)); }
    else if sl.iter().all(|&x| x == 0) {}
    else { for k in 0..4 { rec(d + 1, (h << 2) | k, dm, m, out); } }
  }
  let mut out = Vec::new();
  for b in 0..12 { rec(0, b, dm, m, &mut out); }
  out
}
pub fn pack_model(cells: &mut Vec<CellT>) {
  loop {
    let mut changed = false;
    let mut i = 0; let mut out = Vec::with_capacity(cells.len());
    while i < cells.len() {
      let (d, h, f) = cells[i];
      if d > 0 && f && h & 3 == 0 && i + 3 < cells.len() && (1..4).all(|k| cells[i + k] == (d, h | k as u64, true)) { out.push((d - 1, h >> 2, true)); i += 4; changed = true; }
      else { out.push((d, h, f)); i += 1; }
    }
    *cells = out;
    if !changed { break; }
  }
}
pub fn is_packed(cells: &[CellT]) -> bool {
  for i in 0..cells.len() { let (d, h, f) = cells[i]; if d > 0 && f && h & 3 == 0 && i + 3 < cells.len() && (1..4).all(|k| cells[i + k] == (d, h | k as u64, true)) { return false; } }
  true
}

/// random valid tree over base cells `bases`: each node absent / full / partial / split
pub fn gen_tree(rng: &mut Rng, depth_max: u8, bases: &[u64], with_partial: bool, out: &mut Vec<CellT>) {
  fn rec(rng: &mut Rng, d: u8, h: u64, dm: u8, wp: bool, out: &mut Vec<CellT>) {
    let c = rng.below(if d < dm { 8 } else { 4 });
    match c {
      0 | 1 => {}
      2 => out.push((d, h, true)),
      3 => out.push((d, h, !wp)),
      _ => { for k in 0..4 { rec(rng, d + 1, (h << 2) | k, dm, wp, out); } }
    }
  }
  for &b in bases { rec(rng, 0, b, depth_max, with_partial, out); }
}

pub fn fmt_cells(c: &[CellT]) -> String {
  let v: Vec<String> = c.iter().take(40).map(|&(d, h, f)| format!("{}/{}{}", d, h, if f { "" } else { "p" })).collect();
  format!("[{}{}]", v.join(" "), if c.len() > 40 { " ..." } else { "" })
}
/// cells <-> case strings: "d/h/f,d/h/f"
pub fn cells_to_str(c: &[CellT]) -> String { if c.is_empty() { "-".into() } else { c.iter().map(|&(d, h, f)| format!("{}/{}/{}", d, h, f as u8)).collect::<Vec<_>>().join(",") } }
pub fn cells_from_str(s: &str) -> Vec<CellT> {
  if s == "-" || s.is_empty() { return vec![]; }
  s.split(',').map(|t| { let p: Vec<&str> = t.split('/').collect(); (p[0].parse().unwrap(), p[1].parse().unwrap(), p[2] == "1") }).collect()
}

#[derive(Default, Clone, Debug)]
pub struct WalkStats { pub n_cells: usize, pub deep_size: usize, pub flat_checked: bool, pub prefix_checked: bool, pub mixed_flags: bool, pub mixed_depths: bool }

/// C09 invariant walker. Err(description) on the first broken invariant.
pub fn walk(b: &BMOC, flat_limit: usize) -> Result<WalkStats, String> { walk_opt(b, flat_limit, true) }
/// `lazy`: also check the lazy flattened views of BMOCs too large to flatten (prefixes, per coarse entry): C09's business, costly
pub fn walk_opt(b: &BMOC, flat_limit: usize, lazy: bool) -> Result<WalkStats, String> {
  let dm = b.get_depth_max();
  if dm > 29 { return Err(format!("depth_max {} > 29", dm)); }
  let mut st = WalkStats::default();
  // raw entries strictly increasing
  for (k, w) in b.entries.windows(2).enumerate() { if w[0] >= w[1] { return Err(format!("raw entries not strictly increasing at index {}: {:#x} then {:#x}", k, w[0], w[1])); } }
  let cells = cells_of(b);
  st.n_cells = cells.len();
  let mut prev_end = 0u64; let mut first = true; let mut deep = 0u128;
  let (mut any_full, mut any_part) = (false, false); let mut depths = std::collections::BTreeSet::new();
  for (k, &(d, h, f)) in cells.iter().enumerate() {
    let raw = b.entries[k];
    if raw >> 1 == 0 { return Err(format!("entry {} has no sentinel bit: {:#x}", k, raw)); }
    if d > dm { return Err(format!("entry {}: depth {} > depth_max {}", k, d, dm)); }
    if h >= 12u64 << (2 * d) { return Err(format!("entry {}: cell number {} >= 12*4^{}", k, h, d)); }
    let s = 2 * (dm - d) as u32;
    let (a, e) = (h << s, (h + 1) << s);
    if !first && a < prev_end { return Err(format!("entry {} ({}/{}) overlaps or precedes the previous entry (range starts {} < {})", k, d, h, a, prev_end)); }
    prev_end = e; first = false; deep += (e - a) as u128;
    if f { any_full = true; } else { any_part = true; }
    depths.insert(d);
  }
  st.mixed_flags = any_full && any_part; st.mixed_depths = depths.len() > 1;
  // into_iter cells = decoded entries
  let mut n = 0;
  for (k, c) in b.into_iter().enumerate() {
    if k >= cells.len() { return Err("into_iter yields more cells than entries".into()); }
    let (d, h, f) = cells[k];
    if c.depth != d || c.hash != h || c.is_full != f || c.raw_value != b.entries[k] { return Err(format!("into_iter cell {} = ({}, {}, {}) differs from entry ({}, {}, {})", k, c.depth, c.hash, c.is_full, d, h, f)); }
    let c2 = b.from_raw_value(b.entries[k]);
    if c2.depth != d || c2.hash != h || c2.is_full != f { return Err(format!("from_raw_value differs at {}", k)); }
    n += 1;
  }
  if n != cells.len() { return Err(format!("into_iter yields {} cells for {} entries", n, cells.len())); }
  if b.iter().count() != cells.len() { return Err("iter() length differs".into()); }
  // deep_size
  if deep > usize::MAX as u128 { return Ok(st); }
  st.deep_size = deep as usize;
  let ds = b.deep_size();
  if ds != st.deep_size { return Err(format!("deep_size() = {} but the entries cover {} deepest cells", ds, st.deep_size)); }
  // ranges: disjoint, non adjacent, expansion = entries' ranges merged
  let rg = b.to_ranges();
  let mut want: Vec<(u64, u64)> = Vec::new();
  for &(d, h, _) in cells.iter() { let s = 2 * (dm - d) as u32; let (a, e) = (h << s, (h + 1) << s); match want.last_mut() { Some(l) if l.1 == a => l.1 = e, _ => want.push((a, e)) } }
  if rg.len() != want.len() { return Err(format!("to_ranges yields {} ranges, expected {} (merged, non-adjacent)", rg.len(), want.len())); }
  for (k, r) in rg.iter().enumerate() { if (r.start, r.end) != want[k] { return Err(format!("to_ranges range {} = {}..{} expected {}..{}", k, r.start, r.end, want[k].0, want[k].1)); } if r.start >= r.end { return Err("empty range".into()); } if k > 0 && rg[k - 1].end >= r.start { return Err(format!("ranges {} and {} overlap or are adjacent", k - 1, k)); } }
  if st.deep_size <= flat_limit {
    st.flat_checked = true;
    // expected flat view
    let mut flat: Vec<(u64, bool, u64)> = Vec::with_capacity(st.deep_size);
    for (k, &(d, h, f)) in cells.iter().enumerate() { let s = 2 * (dm - d) as u32; for x in (h << s)..((h + 1) << s) { flat.push((x, f, b.entries[k])); } }
    let it = b.flat_iter();
    if it.size_hint() != (st.deep_size, Some(st.deep_size)) { return Err(format!("flat_iter size_hint {:?} != deep size {}", it.size_hint(), st.deep_size)); }
    if it.deep_size() != st.deep_size || it.depth() != dm { return Err("flat_iter deep_size()/depth() wrong".into()); }
    let got: Vec<u64> = it.collect();
    if got.len() != flat.len() { return Err(format!("flat_iter yields {} cells, expected {}", got.len(), flat.len())); }
    for (k, &x) in got.iter().enumerate() { if x != flat[k].0 { return Err(format!("flat_iter element {} = {} expected {}", k, x, flat[k].0)); } }
    for w in got.windows(2) { if w[0] >= w[1] { return Err("flat_iter not strictly increasing".into()); } }
    let fa = b.to_flat_array();
    if fa.len() != got.len() || fa.iter().zip(got.iter()).any(|(a, c)| a != c) { return Err(format!("to_flat_array (len {}) differs from flat_iter (len {})", fa.len(), got.len())); }
    let itc = b.flat_iter_cell();
    if itc.size_hint() != (st.deep_size, Some(st.deep_size)) { return Err("flat_iter_cell size_hint wrong".into()); }
    let mut k = 0;
    for c in itc {
      if k >= flat.len() { return Err("flat_iter_cell yields too many cells".into()); }
      if c.hash != flat[k].0 || c.is_full != flat[k].1 || c.raw_value != flat[k].2 || c.depth != dm { return Err(format!("flat_iter_cell element {} = (hash {}, full {}, raw {:#x}, depth {}) expected (hash {}, full {}, raw {:#x}, depth {})", k, c.hash, c.is_full, c.raw_value, c.depth, flat[k].0, flat[k].1, flat[k].2, dm)); }
      k += 1;
    }
    if k != flat.len() { return Err(format!("flat_iter_cell yields {} cells, expected {}", k, flat.len())); }
    // ranges expansion == flat
    let mut k = 0;
    for r in rg.iter() { for x in r.clone() { if k >= flat.len() || flat[k].0 != x { return Err("expansion of to_ranges differs from the flat view".into()); } k += 1; } }
    if k != flat.len() { return Err("expansion of to_ranges shorter than the flat view".into()); }
  } else if lazy {
    // too many deepest cells to flatten: the lazy views are checked on a prefix, and on small BMOCs rebuilt from single coarse entries
    // (+ their follower) so that the hand-over from one entry to the next is observed for every delta depth that can be walked
    st.prefix_checked = true;
    prefix_check(b, dm, &cells, 4096)?;
    let mut seen_dd = std::collections::BTreeSet::new();
    for (k, &(d, _, _)) in cells.iter().enumerate() {
      let dd = dm - d; if dd < 7 || dd > 24 || !seen_dd.insert(dd) { continue; }
      let sub: Vec<CellT> = cells[k..(k + 2).min(cells.len())].to_vec();
      let sb = to_bmoc(dm, &sub);
      prefix_check(&sb, dm, &sub, 70_000).map_err(|e| format!("BMOC rebuilt from entries {}..{} ({}): {}", k, k + sub.len(), fmt_cells(&sub), e))?;
      if seen_dd.len() >= 10 { break; }
    }
  }
  Ok(st)
}

/// first `limit` elements of flat_iter / flat_iter_cell against the decoded entries
fn prefix_check(b: &BMOC, dm: u8, cells: &[CellT], limit: usize) -> Result<(), String> {
  let mut want: Vec<(u64, bool, u64)> = Vec::with_capacity(limit);
  'o: for (k, &(d, h, f)) in cells.iter().enumerate() { let s = 2 * (dm - d) as u32; let mut x = h << s; let e = (h + 1) << s; while x < e { if want.len() >= limit { break 'o; } want.push((x, f, b.entries[k])); x += 1; } }
  let mut n = 0;
  for (k, x) in b.flat_iter().take(want.len()).enumerate() { if x != want[k].0 { return Err(format!("flat_iter element {} = {} expected {} (prefix of a large BMOC)", k, x, want[k].0)); } n += 1; }
  if n != want.len() { return Err(format!("flat_iter ends after {} cells, at least {} expected", n, want.len())); }
  let mut n = 0;
  for (k, c) in b.flat_iter_cell().take(want.len()).enumerate() {
    if c.hash != want[k].0 || c.is_full != want[k].1 || c.raw_value != want[k].2 || c.depth != dm { return Err(format!("flat_iter_cell element {} = (hash {}, full {}, raw {:#x}, depth {}) expected (hash {}, full {}, raw {:#x}, depth {}) (prefix of a large BMOC)", k, c.hash, c.is_full, c.raw_value, c.depth, want[k].0, want[k].1, want[k].2, dm)); }
    n += 1;
  }
  if n != want.len() { return Err(format!("flat_iter_cell ends after {} cells, at least {} expected", n, want.len())); }
  Ok(())
}

/// run the walker, report a C09 violation (or info if another property is being judged); returns the decoded cells when well formed
pub fn walk_or_report(ctx: &mut Ctx, b: &BMOC, producer: &str, case: &Case, is_c09_run: bool) -> Option<Vec<CellT>> {
  ctx.eval();
  match walk(b, 200_000) {
    Ok(st) => {
      ctx.bump("bmocs-walked");
      if st.mixed_flags || st.mixed_depths { ctx.bump("bmocs-walked:mixed-flags-or-depths"); }
      if st.flat_checked { ctx.bump("bmocs-walked:flat-views-compared-in-full"); } else if st.prefix_checked { ctx.bump("bmocs-walked:too-large-to-flatten,lazy-views-compared-on-prefixes-and-per-coarse-entry"); }
      Some(cells_of(b))
    }
    Err(e) => {
      if is_c09_run { ctx.violation(&format!("malformed-bmoc-from-{}", producer), case.clone(), e); } else { ctx.violation(&format!("result-not-a-well-formed-bmoc({})", producer), case.clone(), e); }
      None
    }
  }
}

// ---------------------------------------------------------------------------------------------
// sparse (interval) model: a BMOC as a sorted list of (start, end, state) over the deepest cells of a common depth, for depths that
// cannot be flattened (12 * 4^29 cells). state 1 = partial, 2 = full; absent ranges are not listed.
// ---------------------------------------------------------------------------------------------
pub type Iv = (u64, u64, u8);
pub fn to_intervals(dm: u8, cells: &[CellT]) -> Vec<Iv> {
  let mut v: Vec<Iv> = Vec::with_capacity(cells.len());
  for &(d, h, f) in cells { let s = 2 * (dm - d) as u32; let (a, e, st) = (h << s, (h + 1) << s, if f { 2 } else { 1 });
    match v.last_mut() { Some(l) if l.1 == a && l.2 == st => l.1 = e, _ => v.push((a, e, st)) } }
  v
}
/// pointwise combination of two interval maps over [0, n)
pub fn combine_intervals(n: u64, a: &[Iv], b: &[Iv], f: &dyn Fn(u8, u8) -> u8) -> Vec<Iv> {
  let mut cuts: Vec<u64> = vec![0, n];
  for x in a.iter().chain(b.iter()) { cuts.push(x.0); cuts.push(x.1); }
  cuts.sort(); cuts.dedup();
  let state_at = |v: &[Iv], x: u64| -> u8 { match v.binary_search_by(|iv| if iv.1 <= x { std::cmp::Ordering::Less } else if iv.0 > x { std::cmp::Ordering::Greater } else { std::cmp::Ordering::Equal }) { Ok(i) => v[i].2, Err(_) => 0 } };
  let mut out: Vec<Iv> = Vec::new();
  for w in cuts.windows(2) { let st = f(state_at(a, w[0]), state_at(b, w[0])); if st == 0 { continue; }
    match out.last_mut() { Some(l) if l.1 == w[0] && l.2 == st => l.1 = w[1], _ => out.push((w[0], w[1], st)) } }
  out
}
/// canonical packed MOC (all cells full) of a set of intervals over the deepest cells of depth dm: largest aligned cells
pub fn canonical_from_intervals(dm: u8, iv: &[Iv]) -> Vec<CellT> {
  let mut out = Vec::new();
  for &(mut a, e, _) in iv { while a < e {
    // largest k such that a is aligned on 4^k and a + 4^k <= e
    let mut k = 0u32; while k < dm as u32 && a % (1u64 << (2 * (k + 1))) == 0 && a + (1u64 << (2 * (k + 1))) <= e { k += 1; }
    out.push((dm - k as u8, a >> (2 * k), true)); a += 1u64 << (2 * k);
  } }
  out
}
