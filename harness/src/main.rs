//! hpxmon — runtime monitors for cds-healpix-rust. One invocation = one property, one pass.
//! Usage: hpxmon --prop C01 --tier quick|thorough --seed N --pass release|debug|bmi2 --known id1,id2 --out part.json [--replay "case line"]
mod util;
mod refm;
mod gen;
mod bm;
mod findings;
mod mon;

use std::collections::BTreeMap;
use util::*;

pub struct Monitor {
  pub id: &'static str,
  pub rule: &'static str,
  pub assumptions: &'static [&'static str],
  pub run: fn(&mut Ctx, &mut BTreeMap<String, String>),
  pub replay: fn(&mut Ctx, &Case),
}

fn main() {
  let args: Vec<String> = std::env::args().collect();
  let mut prop = String::new(); let mut tier = String::from("quick"); let mut seed = 1u64; let mut pass = String::from("release");
  let mut known: Vec<String> = Vec::new(); let mut out = String::new(); let mut replay: Option<String> = None;
  let mut k = 1;
  while k < args.len() {
    let a = args[k].as_str();
    let v = args.get(k + 1).cloned().unwrap_or_default();
    match a {
      "--prop" => { prop = v; k += 1; }
      "--tier" => { tier = v; k += 1; }
      "--seed" => { seed = v.parse().unwrap_or(1); k += 1; }
      "--pass" => { pass = v; k += 1; }
      "--known" => { known = v.split(',').filter(|s| !s.is_empty()).map(|s| s.to_string()).collect(); k += 1; }
      "--out" => { out = v; k += 1; }
      "--replay" => { replay = Some(v); k += 1; }
      "--lastcase" => { set_lastcase_path(&v); k += 1; }
      "--worker" => { mon::worker_main(&args[k + 1..]); return; }
      _ => { eprintln!("unknown arg {}", a); std::process::exit(3); }
    }
    k += 1;
  }
  install_quiet_panic_hook();
  let m = match mon::lookup(&prop) { Some(m) => m, None => { eprintln!("unknown property {}", prop); std::process::exit(3); } };
  let mut ctx = Ctx::new(&prop, tier == "thorough", seed, &pass, &known);
  let mut extra = BTreeMap::new();
  extra.insert("debug_assertions".to_string(), format!("{}", cfg!(debug_assertions)));
  extra.insert("bmi2".to_string(), format!("{}", cfg!(target_feature = "bmi2")));
  extra.insert("hooks_cfg".to_string(), format!("{}", cfg!(cdshealpix_verif)));
  let t0 = std::time::Instant::now();
  match replay {
    Some(line) => { let c = Case::parse(&line); (m.replay)(&mut ctx, &c); }
    None => { let run = m.run; util::run_guarded(&mut ctx, |c| run(c, &mut extra)); }
  }
  let wall = t0.elapsed().as_secs_f64();
  let js = ctx.to_json(m.rule, m.assumptions, wall, &extra);
  if out.is_empty() { println!("{}", js); } else { std::fs::write(&out, js).expect("write part"); }
  // exit code is decided by ./check from the part file; still give a hint
  std::process::exit(if ctx.n_violations > 0 { 1 } else if !ctx.inconclusive.is_empty() { 2 } else { 0 });
}
