//! C15 — BMOC builders preserve exactly what was pushed.
use crate::bm::*;
use crate::util::*;
use crate::Monitor;
use cdshealpix::nested::bmoc::{BMOCBuilderFixedDepth, BMOCBuilderUnsafe};
use std::collections::BTreeMap;

pub fn monitor() -> Monitor {
  Monitor { id: "C15",
    rule: "fixed-depth builder: depth 0..6 and 29, flag, buffer capacity 1..40 (and 10^4), push sequences: random, increasing runs, decreasing runs, few distinct values (massive duplicates), clustered runs starting on / off 4^k-aligned cells with repeated pushes, empty; plus long aligned runs (4^k - 2 .. 4^k + 1 consecutive cells from a multiple of 4^k, k up to 11 / 12, i.e. up to 1.7e7 pushes, judged on intervals); plus histories in which ONE builder serves 3 successive builds (to_bmoc leaves an empty builder; the next build often starts with the last value of the previous one): build k must cover exactly what was pushed since build k-1; oracle = sorted-dedup of the pushes. pack: random valid trees (depth_max 1..5, 1-3 base cells, flags mixed or all full) pushed through to_bmoc_packing; lower depth: the same trees through to_lower_depth_bmoc(_packing) for every new depth < depth_max. Non-trivial = sequence with at least one duplicate or out-of-order push and more pushes than the capacity (forces intermediate merges), or tree containing 4 full siblings (pack must act) / cells deeper than the new depth.",
    assumptions: &["model = set of pushed numbers / map deepest cell -> state (bm.rs)"],
    run, replay }
}

fn run(ctx: &mut Ctx, _extra: &mut BTreeMap<String, String>) {
  let seed = ctx.seed;
  let small = ctx.pass != "release";
  let n_seq = if ctx.thorough { if small { 20_000 } else { 2_000_000 } } else if small { 3_000 } else { 100_000 };
  let n_tree = if ctx.thorough { if small { 20_000 } else { 3_000_000 } } else if small { 3_000 } else { 100_000 };
  run_sharded(ctx, 16, |c, k| {
    let mut rng = Rng::new(seed, 1500 + k as u64);
    for _ in 0..n_seq / 16 { let case = gen_seq(&mut rng); judge_seq(c, &case); }
    // long aligned runs: 4^k - 2 .. 4^k + 1 consecutive cells starting on a multiple of 4^k (the builder turns run lengths into delta depths),
    // k up to 11 (4.2 million pushes; 12 in the thorough release pass), default and explicit capacities; judged on intervals
    { let kmax: u32 = if small { 8 } else if c.thorough { 12 } else { 11 };
      for kk in 1..=kmax { if kk as usize % 16 != k { continue; } for &dl in [-2i64, -1, 0, 1].iter() {
        let depth = (kk as u8).max(if rng.coin() { 29 } else { kk as u8 + rng.below(3) as u8 }).min(29);
        let nalign = (12u64 << (2 * depth)) >> (2 * kk); let start = rng.below(nalign) << (2 * kk);
        let len = (((1i64 << (2 * kk)) + dl) as u64).min((12u64 << (2 * depth)) - start); // (the run must stay below 12.4^depth)
        let cap = if kk >= 12 { 20_000_000 } else if rng.coin() { 0 } else { (len as usize + 10).max(16) };
        judge_run(c, depth, rng.coin(), cap, start, len);
      } } }
    // the same builder used for several successive builds (to_bmoc hands the result over and leaves an empty builder)
    for _ in 0..n_seq / 64 { let case = gen_sessions(&mut rng); judge_sessions(c, &case); }
    for _ in 0..n_tree / 16 { let case = gen_tree_case(&mut rng); judge_tree(c, &case); }
    if k == 0 { judge_seq(c, &Case::new("seq").u("depth", 3).b("flag", true).u("cap", 5).ul("seq", &[])); }
  });
}

/// one long ascending run [start, start+len) followed by two isolated cells; oracle on intervals (no flattening)
pub fn judge_run(ctx: &mut Ctx, depth: u8, flag: bool, cap: usize, start: u64, len: u64) {
  let c = Case::new("run").u("depth", depth as u64).b("flag", flag).u("cap", cap as u64).u("start", start).u("len", len);
  ctx.eval();
  let nh = 12u64 << (2 * depth);
  let tail: Vec<u64> = [start + len + 2, start + len + 5].iter().cloned().filter(|&x| x < nh).collect();
  let r = catch(|| { let mut b = if cap == 0 { BMOCBuilderFixedDepth::new(depth, flag) } else { BMOCBuilderFixedDepth::with_capacity(depth, flag, cap) };
    for h in start..start + len { b.push(h); } for &h in tail.iter() { b.push(h); } b.to_bmoc() });
  ctx.hard("run:long-aligned-run", &[depth as u64, cap as u64, start, len]);
  match r {
    Err(p) => ctx.violation("fixed-depth-builder-panics", c, p),
    Ok(None) => ctx.violation("builder-returns-nothing-although-cells-were-pushed", c, format!("{} cells pushed", len)),
    Ok(Some(bm)) => {
      let cells = match walk_opt(&bm, 1 << 12, false) { Ok(_) => cells_of(&bm), Err(e) => { ctx.violation("builder-result-not-well-formed", c, e); return; } };
      if cells.iter().any(|x| x.2 != flag) { ctx.violation("builder-result-cell-with-wrong-flag", c.clone(), fmt_cells(&cells[..cells.len().min(8)])); }
      let st = if flag { 2 } else { 1 };
      let mut want: Vec<Iv> = vec![(start, start + len, st)]; for &h in tail.iter() { want.push((h, h + 1, st)); }
      let got = to_intervals(depth, &cells);
      if got != want { ctx.violation("builder-result-differs-from-the-pushed-set", c, format!("pushed {:?}, result covers {:?} ({} entries)", want, &got[..got.len().min(6)], cells.len())); }
    }
  }
}

fn gen_sessions(rng: &mut Rng) -> Case {
  let a = gen_seq(rng); let depth = a.gu("depth"); let nh = 12u64 << (2 * depth);
  let sa = a.gul("seq");
  let mut sb: Vec<u64> = Vec::new();
  let nb = rng.below(12) as usize;
  // the second build often starts with (or contains) values of the first one, in particular its last value
  if let Some(&l) = sa.last() { match rng.below(4) { 0 => sb.push(l), 1 => { sb.push(l); sb.push(l); } 2 => sb.push(sa[0]), _ => {} } }
  for _ in 0..nb { sb.push(if rng.coin() && !sa.is_empty() { *rng.pick(&sa) } else { rng.below(nh) }); }
  let mut sc: Vec<u64> = Vec::new();
  if rng.coin() { if let Some(&l) = sb.last() { if rng.coin() { sc.push(l); } } for _ in 0..rng.below(6) { sc.push(rng.below(nh)); } }
  Case::new("sessions").u("depth", depth).b("flag", a.gb("flag")).u("cap", a.gu("cap")).ul("seq", &sa).ul("seq2", &sb).ul("seq3", &sc)
}

/// successive builds with one builder: build k must cover exactly what was pushed since build k-1, and be None iff that is nothing
pub fn judge_sessions(ctx: &mut Ctx, c: &Case) {
  let (depth, flag, cap) = (c.gu("depth") as u8, c.gb("flag"), c.gu("cap") as usize);
  let seqs = [c.gul("seq"), c.gul("seq2"), c.gul("seq3")];
  ctx.eval();
  let r = catch(|| { let mut b = if cap == 0 { BMOCBuilderFixedDepth::new(depth, flag) } else { BMOCBuilderFixedDepth::with_capacity(depth, flag, cap) };
    let mut out = Vec::new(); for s in seqs.iter() { for &h in s.iter() { b.push(h); } out.push(b.to_bmoc()); } out });
  ctx.hard("sessions:builder-reused-after-to_bmoc", &[depth as u64, cap as u64, seqs[0].len() as u64, seqs[1].len() as u64, seqs[1].first().copied().unwrap_or(u64::MAX), seqs[0].last().copied().unwrap_or(u64::MAX)]);
  match r {
    Err(p) => ctx.violation("fixed-depth-builder-panics", c.clone(), p),
    Ok(out) => for (k, (res, s)) in out.into_iter().zip(seqs.iter()).enumerate() {
      let mut want: Vec<u64> = s.clone(); want.sort(); want.dedup();
      ctx.eval();
      match res {
        None => if !want.is_empty() { ctx.violation("builder-returns-nothing-although-cells-were-pushed", c.clone().u("build", k as u64), format!("build {} of a reused builder: {} distinct cells pushed since the previous to_bmoc", k, want.len())); },
        Some(bm) => {
          if want.is_empty() { ctx.violation("builder-returns-a-bmoc-although-nothing-was-pushed", c.clone().u("build", k as u64), format!("build {} of a reused builder", k)); continue; }
          let cells = match walk(&bm, 1 << 16) { Ok(_) => cells_of(&bm), Err(e) => { ctx.violation("builder-result-not-well-formed", c.clone().u("build", k as u64), e); continue; } };
          if cells.iter().any(|x| x.2 != flag) { ctx.violation("builder-result-cell-with-wrong-flag", c.clone().u("build", k as u64), fmt_cells(&cells)); }
          let mut got: Vec<u64> = Vec::new(); let mut huge = false;
          for &(d, h, _) in cells.iter() { let sft = 2 * (depth - d) as u32; let (a, e) = (h << sft, (h + 1) << sft); if e - a > 1 << 20 { huge = true; break; } for x in a..e { got.push(x); } }
          if huge { ctx.violation("builder-result-covers-far-more-than-pushed", c.clone().u("build", k as u64), fmt_cells(&cells)); }
          else if got != want { ctx.violation("builder-result-differs-from-the-pushed-set", c.clone().u("build", k as u64), format!("build {} of a reused builder: got {} cells, pushed {} distinct since the previous to_bmoc", k, got.len(), want.len())); }
        }
      }
    }
  }
}

fn gen_seq(rng: &mut Rng) -> Case {
  let depth = if rng.below(12) == 0 { 29 } else { rng.below(7) as u8 };
  let nh = 12u64 << (2 * depth);
  let flag = rng.coin();
  let cap = match rng.below(60) { 0 | 1 => 10_000, 2 => 0, _ => 1 + rng.below(40) as usize };
  let n = if rng.below(20) == 0 { 0 } else { rng.below(250) as usize };
  let style = rng.below(6);
  let mut seq = Vec::new();
  let mut cur = rng.below(nh);
  for _ in 0..n {
    match style {
      0 => seq.push(rng.below(nh)),
      1 => { cur = (cur + 1 + (rng.below(8) == 0) as u64 * rng.below(20)) % nh; seq.push(cur); }
      2 => { cur = (cur + 2 * nh - 1 - (rng.below(8) == 0) as u64 * rng.below(nh.min(20))) % nh; seq.push(cur); }
      3 => { seq.push(rng.below(nh.min(64))); }
      4 => { if rng.below(10) == 0 { cur = rng.below(nh) & !15; } else { cur = (cur + 1) % nh; } seq.push(cur); if rng.below(4) == 0 { seq.push(cur); } }
      _ => { if rng.below(12) == 0 { cur = (rng.below(nh) & !63) + rng.below(3); } else { cur = (cur + 1) % nh; } seq.push(cur); }
    }
  }
  Case::new("seq").u("depth", depth as u64).b("flag", flag).u("cap", cap as u64).ul("seq", &seq)
}

pub fn judge_seq(ctx: &mut Ctx, c: &Case) {
  let (depth, flag, cap, seq) = (c.gu("depth") as u8, c.gb("flag"), c.gu("cap") as usize, c.gul("seq"));
  ctx.eval();
  let mut want: Vec<u64> = seq.clone(); want.sort(); want.dedup();
  // capacity 0 in a case = the default constructor BMOCBuilderFixedDepth::new (10^7 entries buffer)
  let r = catch(|| { let mut b = if cap == 0 { BMOCBuilderFixedDepth::new(depth, flag) } else { BMOCBuilderFixedDepth::with_capacity(depth, flag, cap) }; for &h in seq.iter() { b.push(h); } b.to_bmoc() });
  let forced = cap > 0 && (seq.len() > cap && want.len() < seq.len() || seq.windows(2).any(|w| w[0] > w[1]) && seq.len() > cap);
  if forced { ctx.hard("seq:duplicates-or-disorder-with-intermediate-merges", &[depth as u64, cap as u64, seq.len() as u64, seq.iter().fold(0u64, |a, &x| a.wrapping_mul(31).wrapping_add(x))]); } else { ctx.bump("plain-sequences"); }
  match r {
    Err(p) => ctx.violation("fixed-depth-builder-panics", c.clone(), p),
    Ok(None) => { if !want.is_empty() { ctx.violation("builder-returns-nothing-although-cells-were-pushed", c.clone(), format!("{} distinct cells pushed", want.len())); } else { ctx.bump("empty-builder-returns-none"); } }
    Ok(Some(bm)) => {
      if want.is_empty() { ctx.violation("builder-returns-a-bmoc-although-nothing-was-pushed", c.clone(), String::new()); return; }
      if bm.get_depth_max() != depth { ctx.violation("builder-result-depth_max-wrong", c.clone(), format!("{}", bm.get_depth_max())); return; }
      let cells = match walk(&bm, 1 << 16) { Ok(_) => cells_of(&bm), Err(e) => { ctx.violation("builder-result-not-well-formed", c.clone(), e); return; } };
      ctx.eval();
      if cells.iter().any(|x| x.2 != flag) { ctx.violation("builder-result-cell-with-wrong-flag", c.clone(), fmt_cells(&cells)); }
      // covered set == pushed set
      let mut got: Vec<u64> = Vec::with_capacity(want.len());
      for &(d, h, _) in cells.iter() { let s = 2 * (depth - d) as u32; let (a, e) = (h << s, (h + 1) << s); if e - a > 1 << 20 { ctx.violation("builder-result-covers-far-more-than-pushed", c.clone(), fmt_cells(&cells)); return; } for x in a..e { got.push(x); } }
      if got != want { let extra: Vec<&u64> = got.iter().filter(|x| want.binary_search(x).is_err()).take(5).collect(); let missing: Vec<&u64> = want.iter().filter(|x| got.binary_search(x).is_err()).take(5).collect(); ctx.violation("builder-result-differs-from-the-pushed-set", c.clone(), format!("{} cells for {} pushed; extra {:?} missing {:?}", got.len(), want.len(), extra, missing)); }
      if ctx.samples.len() < 4 && forced && depth > 1 { ctx.sample(c, &format!("-> {}", fmt_cells(&cells))); }
    }
  }
}

fn gen_tree_case(rng: &mut Rng) -> Case {
  let dm = 1 + rng.below(5) as u8;
  let nb = 1 + rng.below(3);
  let bases: Vec<u64> = { let s = rng.below(12 - nb + 1); (s..s + nb).collect() };
  let pm = rng.coin(); let mut c = Vec::new(); gen_tree(rng, dm.min(4), &bases, pm, &mut c);
  Case::new("tree").u("dm", dm as u64).s("cells", &cells_to_str(&c))
}

pub fn judge_tree(ctx: &mut Ctx, c: &Case) {
  let dm = c.gu("dm") as u8; let cells = cells_from_str(c.get("cells").unwrap_or("-"));
  let m = to_model(dm, &cells);
  let build = || { let mut b = BMOCBuilderUnsafe::new(dm, 8); for &(d, h, f) in &cells { b.push(d, h, f); } b };
  // pack
  ctx.eval();
  match catch(|| build().to_bmoc_packing()) {
    Err(p) => ctx.violation("to_bmoc_packing-panics", c.clone(), p),
    Ok(bm) => match walk(&bm, 1 << 14) {
      Err(e) => ctx.violation("to_bmoc_packing-result-not-well-formed", c.clone(), e),
      Ok(_) => { let rc = cells_of(&bm); if bm.get_depth_max() != dm { ctx.violation("to_bmoc_packing-changes-depth_max", c.clone(), String::new()); } else if to_model(dm, &rc) != m { ctx.violation("packing-changes-the-cell-to-state-map", c.clone(), fmt_cells(&rc)); } else if !is_packed(&rc) { ctx.violation("packing-leaves-four-full-siblings", c.clone(), fmt_cells(&rc)); } }
    }
  }
  if !is_packed(&cells) { ctx.hard("tree:four-full-siblings", &[dm as u64, cells.len() as u64, cells.iter().fold(0u64, |a, x| a.wrapping_mul(131).wrapping_add(x.1 * 2 + x.2 as u64))]); } else { ctx.bump("plain-trees"); }
  // lower depth, both variants, every new depth
  for nd in 0..dm {
    for &packing in [false, true].iter() {
      let mut cc = cells.clone(); if !packing { pack_model(&mut cc); } // the non-packing variant documents a packed input
      ctx.eval();
      let r = catch(|| { let mut b = BMOCBuilderUnsafe::new(dm, 8); for &(d, h, f) in &cc { b.push(d, h, f); } if packing { b.to_lower_depth_bmoc_packing(nd) } else { b.to_lower_depth_bmoc(nd) } });
      let cl = c.clone().u("nd", nd as u64).b("packing", packing);
      match r {
        Err(p) => ctx.violation("to_lower_depth-panics", cl, p),
        Ok(bm) => {
          if bm.get_depth_max() != nd { ctx.violation("to_lower_depth-result-depth_max-wrong", cl, format!("{}", bm.get_depth_max())); continue; }
          match walk(&bm, 1 << 14) {
            Err(e) => ctx.violation("to_lower_depth-result-not-well-formed", cl, e),
            Ok(_) => {
              let rc = cells_of(&bm); let lm = to_model(nd, &rc); let s = 2 * (dm - nd) as usize;
              for (i, &st) in lm.iter().enumerate() {
                let sub = &m[(i << s)..((i + 1) << s)];
                let any = sub.iter().any(|&x| x != 0); let all_full = sub.iter().all(|&x| x == 2);
                if (st != 0) != any { ctx.violation("lower-depth-keeps-a-coarse-cell-iff-it-contained-something-violated", cl.clone(), format!("coarse cell {} state {} but sub-range non-empty={}; result {}", i, st, any, fmt_cells(&rc))); break; }
                if st == 2 && !all_full { ctx.violation("lower-depth-marks-full-a-cell-not-entirely-covered-by-full-cells", cl.clone(), format!("coarse cell {}; result {}", i, fmt_cells(&rc))); break; }
              }
              if cc.iter().any(|x| x.0 > nd) { ctx.hard("tree:cells-deeper-than-new-depth", &[dm as u64, nd as u64, packing as u64, cc.len() as u64, cc.iter().fold(0u64, |a, x| a.wrapping_mul(131).wrapping_add(x.1 * 2 + x.2 as u64))]); }
            }
          }
        }
      }
    }
  }
}

fn replay(ctx: &mut Ctx, c: &Case) {
  match c.mon() { "seq" => judge_seq(ctx, c), "tree" => judge_tree(ctx, c), "sessions" => judge_sessions(ctx, c), "run" => judge_run(ctx, c.gu("depth") as u8, c.gb("flag"), c.gu("cap") as usize, c.gu("start"), c.gu("len")), m => ctx.inconclusive(&format!("unknown replay monitor {}", m)) }
}
