//! C16 — cell-size helper bounds really are bounds.
use crate::gen::*;
use crate::refm::*;
use crate::util::*;
use crate::Monitor;
use cdshealpix::nested;
use std::collections::{BTreeMap, BTreeSet};
use std::f64::consts::PI;

pub fn monitor() -> Monitor {
  Monitor { id: "C16",
    rule: "(a) every cell of depths <= 7 (quick) / <= 9 (thorough) + class-sampled cells of every deeper depth: true largest centre-to-vertex distance (reference geometry) vs largest_center_to_vertex_distance at the centre, at 2 random interior positions and at 2 positions next to the border of the cell (the bound is for the cell containing the position, wherever the position lies in it); (b) cones (centre from the sphere/pole/seam/transition generators, radius 0.02..40 cell sizes capped at pi/2, and one cone in six with a radius in (0.3, pi] at depths 1..5, longitude outside [0,2pi) one time in eight): the *_with_radius bound (single and multi-depth forms) vs the true value of every cell whose centre is within the radius — cells found by hashing sample points of the cone (brute force over all cells for depth <= 5); (c) best_starting_depth: monotone, equal to a linear scan of the thresholds located by bisection, exact at the tabulated limits (read through the verification hook: r = limit -> shallower depth, one ulp below -> that depth, bisected threshold == limit), refusal of radii >= the depth-0 limit consistent with has_best_starting_depth, and containment of 96 boundary points of the cone in the centre cell + neighbours for radii at (1-{1e-12..0.3}) x threshold with centres aimed at seams, poles, transition latitude; plus, per depth, 6 witness cones built on the thinnest cell of the depth found by the reference geometry (width W): centre just outside one edge, radius W(1 +- {3e-4,3e-3,3e-2}) and the largest radius still answered with that depth (centre 1e-6 W outside; for widths above 1e-5 rad also 4 ulps below the threshold with the centre 3e-13 rad outside and the probe 1e-13 rad inside the cone), probe through the nearest point of the opposite edge. Non-trivial = cell on a base-cell border/corner, cone containing a pole or straddling the transition latitude / LAT_OF_SQUARE_CELL, radius within 5% of a threshold.",
    assumptions: &["reference cell geometry; Layer::hash (C01) and Layer::neighbours (C04) for the containment claim", "distances carry an absolute slack of 1e-15 rad and a relative one of 1e-12"],
    run, replay }
}

fn true_c2v(depth: u8, h: u64) -> f64 {
  let c = ref_center(depth, h);
  ref_vertices(depth, h).iter().map(|v| dist(*v, c)).fold(0.0, f64::max)
}

fn run(ctx: &mut Ctx, extra: &mut BTreeMap<String, String>) {
  let seed = ctx.seed;
  let small = ctx.pass != "release";
  let exh = if ctx.thorough { if small { 6 } else { 9 } } else if small { 5 } else { 7 };
  let n_cells = if ctx.thorough { if small { 300 } else { 8000 } } else if small { 60 } else { 600 };
  let n_cones = if ctx.thorough { if small { 3000 } else { 2000000 } } else if small { 400 } else { 30000 };
  let n_bsd = if ctx.thorough { if small { 5000 } else { 10000000 } } else if small { 800 } else { 80000 };
  extra.insert("exhaustive_up_to_depth".into(), format!("{}", exh));
  let thr = bsd_thresholds();
  extra.insert("thresholds_by_bisection".into(), format!("[{}]", thr.iter().map(|t| jnum(*t)).collect::<Vec<_>>().join(", ")));
  let shards = 16usize;
  let thr_ref = &thr;
  run_sharded(ctx, shards, |c, k| {
    let mut rng = Rng::new(seed, 1600 + k as u64);
    for depth in 0..30u8 {
      let cells: Vec<u64> = if depth <= exh { let n = n_hash(depth); (n * k as u64 / shards as u64..n * (k as u64 + 1) / shards as u64).collect() }
        else { let v = sample_cells(&mut rng, depth, n_cells); v.into_iter().enumerate().filter(|(i, _)| i % shards == k).map(|(_, h)| h).collect() };
      for &h in cells.iter() { judge_cell(c, depth, h, &mut rng); }
    }
    for _ in 0..n_cones / shards { let (case, _) = gen_cone(&mut rng); judge_cone(c, &case); }
    for _ in 0..n_bsd / shards { let case = gen_bsd(&mut rng, thr_ref); judge_bsd(c, &case, thr_ref); }
    if k == 0 { bsd_table(c, thr_ref); bsd_exact(c, thr_ref); for case in witness_cases(thr_ref) { judge_bsd(c, &case, thr_ref); } }
  });
}

pub fn judge_cell(ctx: &mut Ctx, depth: u8, h: u64, rng: &mut Rng) {
  let t = true_c2v(depth, h);
  ctx.worst_max("largest_true_centre_to_vertex_distance_x_nside", t * nside(depth) as f64);
  let layer = nested::get_or_create(depth);
  for q in 0..5 {
    let p = match q { 0 => ref_center(depth, h), 1 | 2 => ref_sph_coo(depth, h, 0.02 + 0.96 * rng.f(), 0.02 + 0.96 * rng.f()), 3 => ref_sph_coo(depth, h, 0.003, 0.003 + 0.994 * rng.f()), _ => ref_sph_coo(depth, h, 0.003 + 0.994 * rng.f(), 0.997) };
    // the position must really be in that cell for the crate (C01): otherwise skip (border rounding)
    if q > 0 { if let Ok(hh) = catch(|| layer.hash(p.0, p.1)) { if hh != h { continue; } } }
    ctx.eval();
    let mk = || Case::new("cell").u("depth", depth as u64).u("h", h).f("lon", p.0).f("lat", p.1);
    match catch(|| cdshealpix::largest_center_to_vertex_distance(depth, p.0, p.1)) {
      Err(e) => ctx.violation("largest_center_to_vertex_distance-panics", mk(), e),
      Ok(b) => {
        // "the cell at that position": the bound must hold for the cell containing the position, wherever the position is in that cell
        // (centre, interior offsets, and 1e-3 cell inside each vertex)
        ctx.worst_max(if q == 0 { "true/bound(at centre)" } else { "true/bound(any position of the cell)" }, t / b);
        if !(t <= b * (1.0 + 1e-12) + 1e-15) { ctx.violation("bound-below-true-centre-to-vertex-distance", mk().s("cls", if q == 0 { "at-centre" } else { "off-centre" }), format!("true={:e} bound={:e} ratio={}", t, b, t / b)); }
      }
    }
  }
  let cls = cell_class(depth, h);
  if !cls.is_empty() { ctx.hard(&format!("cell:{}", cls), &[depth as u64, h]); } else { ctx.bump("plain-cells"); }
}

fn gen_cone(rng: &mut Rng) -> (Case, ()) {
  let depth = 1 + rng.below(29) as u8;
  let cell = 1.0 / nside(depth) as f64;
  let (lon, lat) = cone_center(rng);
  let mut r = (cell * rng.log_uniform(0.02, 40.0)).min(PI / 2.0);
  let mut depth = depth;
  // large cones (the coverage queries call these helpers with radii up to pi): coarse depths, where every cell is enumerated;
  // includes cones containing both poles (r > pi/2 + |lat|)
  if rng.below(6) == 0 { depth = 1 + rng.below(5) as u8; r = if rng.coin() { rng.range(PI / 2.0, PI) } else { rng.range(0.3, PI) }; }
  let lon = any_turn(rng, lon);
  (Case::new("cone").u("depth", depth as u64).f("lon", lon).f("lat", lat).f("r", r).u("s", rng.next() >> 1), ())
}

pub fn judge_cone(ctx: &mut Ctx, c: &Case) {
  let (depth, lon, lat, r) = (c.gu("depth") as u8, c.gf("lon"), c.gf("lat"), c.gf("r"));
  let mut rng = Rng::new(c.gu("s"), 7);
  let layer = nested::get_or_create(depth);
  ctx.eval();
  let b = match catch(|| cdshealpix::largest_center_to_vertex_distance_with_radius(depth, lon, lat, r)) { Ok(b) => b, Err(e) => { ctx.violation("with_radius-panics", c.clone(), e); return; } };
  // cells whose centre lies within r of the position
  let mut cells: BTreeSet<u64> = BTreeSet::new();
  if depth <= 5 { for h in 0..n_hash(depth) { cells.insert(h); } }
  else {
    cells.insert(layer.hash(lon, lat));
    for k in 0..400 { let rho = match k % 4 { 0 => r, 1 => r * rng.f().sqrt(), 2 => r * (1.0 - 0.1 * rng.f()), _ => r * rng.f() }; let p = point_at(lon, lat, rho, rng.f() * TWO_PI); cells.insert(layer.hash(p.0, p.1)); }
  }
  let mut worst = (0.0f64, 0u64);
  let mut n_in = 0;
  for &h in cells.iter() {
    let ctr = ref_center(depth, h);
    if dist(ctr, (lon, lat)) > r { continue; }
    n_in += 1;
    let t = true_c2v(depth, h);
    if t > worst.0 { worst = (t, h); }
  }
  if n_in == 0 { ctx.bump("cones-without-cell-centre-inside"); return; }
  ctx.eval();
  ctx.worst_max("with_radius:true/bound", worst.0 / b);
  if !(worst.0 <= b * (1.0 + 1e-12) + 1e-15) { ctx.violation("with_radius-bound-below-true-distance-of-a-cell-in-the-cone", c.clone(), format!("cell {} true={:e} bound={:e} ratio={}", worst.1, worst.0, b, worst.0 / b)); }
  // the multi-depth form agrees with the single form... at least bounds too
  ctx.eval();
  let from = depth.saturating_sub(2); let to = (depth + 1).min(30);
  match catch(|| cdshealpix::largest_center_to_vertex_distances_with_radius(from, to, lon, lat, r)) {
    Err(e) => ctx.violation("distances_with_radius-panics", c.clone(), e),
    Ok(v) => {
      if v.len() != (to - from) as usize { ctx.violation("distances_with_radius-wrong-length", c.clone(), format!("{} for {}..{}", v.len(), from, to)); }
      else { let bd = v[(depth - from) as usize]; if !(worst.0 <= bd * (1.0 + 1e-12) + 1e-15) { ctx.violation("distances_with_radius-bound-below-true-distance-of-a-cell-in-the-cone", c.clone(), format!("cell {} true={:e} bound={:e} ratio={}", worst.1, worst.0, bd, worst.0 / bd)); } }
    }
  }
  let tl = trans_lat();
  let la = lat.abs();
  if r > PI / 2.0 + la { ctx.hard("cone:contains-both-poles", &[depth as u64, lon.to_bits(), lat.to_bits(), r.to_bits()]); }
  if la + r >= PI / 2.0 { ctx.hard("cone:contains-a-pole", &[depth as u64, lon.to_bits(), lat.to_bits(), r.to_bits()]); }
  else if (la - r < tl && la + r > tl) || (la - r < LAT_OF_SQUARE_CELL && la + r > LAT_OF_SQUARE_CELL) { ctx.hard("cone:straddles-a-region-limit", &[depth as u64, lon.to_bits(), lat.to_bits(), r.to_bits()]); }
  else if la > tl { ctx.hard("cone:polar-cap", &[depth as u64, lon.to_bits(), lat.to_bits(), r.to_bits()]); }
  else { ctx.bump("plain-cones"); }
  if ctx.samples.len() < 4 && la + r >= PI / 2.0 { ctx.sample(c, &format!("bound={:e} worst true={:e} over {} cells", b, worst.0, n_in)); }
}

/// Cones built from the reference data of bsd_witness.rs: for each depth d the thinnest cell found by the reference geometry, of
/// width W (distance p-q between two opposite edges). Centre: just outside the cell, at m.W/3 from p on the side away from q;
/// radius W(1+m) (the cone crosses the whole thin cell and overshoots its opposite edge by 2mW/3: it leaves the 3x3 block at depth d,
/// so best_starting_depth must answer a shallower depth) and W(1-m) (stays inside). The probe towards q is added to the 96 bearings.
pub fn witness_cases(thr: &[f64]) -> Vec<Case> {
  let mut v = Vec::new();
  for &(d, wb, pb, qb) in super::bsd_witness::BSD_WITNESS.iter() {
    let w = f64::from_bits(wb); let (p, q) = ((f64::from_bits(pb[0]), f64::from_bits(pb[1])), (f64::from_bits(qb[0]), f64::from_bits(qb[1])));
    let (vp, vq) = (v3(p), v3(q)); let c = dot(vp, vq);
    let mut t = [vq[0] - c * vp[0], vq[1] - c * vp[1], vq[2] - c * vp[2]]; let nt = norm(t); if !(nt > 0.0) { continue; } t = [t[0] / nt, t[1] / nt, t[2] / nt];
    for &m in [3e-4, 3e-3, 3e-2].iter() { for &sgn in [1.0, -1.0].iter() {
      let delta = m * w / 3.0; let (sd, cd) = f64::sin_cos(delta);
      let cv = [vp[0] * cd - t[0] * sd, vp[1] * cd - t[1] * sd, vp[2] * cd - t[2] * sd];
      let (clon, clat) = (cv[1].atan2(cv[0]).rem_euclid(TWO_PI), cv[2].atan2((cv[0] * cv[0] + cv[1] * cv[1]).sqrt()));
      v.push(Case::new("bsd").f("r", w * (1.0 + sgn * m)).f("lon", clon).f("lat", clat).f("qlon", q.0).f("qlat", q.1).u("wd", d as u64).s("cls", if sgn > 0.0 { "witness-above" } else { "witness-below" }));
    } }
    // adaptive: the largest radius for which the function answers depth d (threshold located by bisection), centre 1e-6 W behind p:
    // the cone stays in the block iff threshold - 1e-6 W <= W, i.e. iff the tabulated limit does not exceed the true width
    { let delta = 1e-6 * w; let (sd, cd) = f64::sin_cos(delta);
      let cv = [vp[0] * cd - t[0] * sd, vp[1] * cd - t[1] * sd, vp[2] * cd - t[2] * sd];
      let (clon, clat) = (cv[1].atan2(cv[0]).rem_euclid(TWO_PI), cv[2].atan2((cv[0] * cv[0] + cv[1] * cv[1]).sqrt()));
      v.push(Case::new("bsd").f("r", thr[d as usize] * (1.0 - 1e-9)).f("lon", clon).f("lat", clat).f("qlon", q.0).f("qlat", q.1).u("wd", d as u64).s("cls", "witness-adaptive")); }
    // sharp adaptive (depths whose thinnest width is above 1e-5 rad): the radius is 4 ulps below the threshold, the centre 3e-13 rad behind p
    // and the probe 1e-13 rad inside the cone: a tabulated limit exceeding the true width by 5e-13 rad is seen
    if w > 1e-5 { let delta = 3e-13; let (sd, cd) = f64::sin_cos(delta);
      let cv = [vp[0] * cd - t[0] * sd, vp[1] * cd - t[1] * sd, vp[2] * cd - t[2] * sd];
      let (clon, clat) = (cv[1].atan2(cv[0]).rem_euclid(TWO_PI), cv[2].atan2((cv[0] * cv[0] + cv[1] * cv[1]).sqrt()));
      v.push(Case::new("bsd").f("r", crate::util::nudge(thr[d as usize], -4)).f("lon", clon).f("lat", clat).f("qlon", q.0).f("qlat", q.1).u("wd", d as u64).f("probe_in", 1e-13).s("cls", "witness-adaptive-sharp")); }
  }
  v
}

fn gen_bsd(rng: &mut Rng, thr: &[f64]) -> Case {
  let d = rng.below(30) as usize;
  let u = *rng.pick(&[1e-12, 1e-9, 1e-6, 1e-3, 0.01, 0.02, 0.03, 0.05, 0.1, 0.3, 0.49]);
  let r = thr[d] * (1.0 - u * if rng.coin() { 1.0 } else { rng.f() });
  let tl = trans_lat();
  let (mut lon, mut lat) = rng.sphere();
  match rng.below(6) {
    0 => { lat = (if rng.coin() { tl } else { -tl }) + (rng.f() - 0.5) * 6.0 * r; }
    1 | 2 => { lat = (tl + 0.01 + rng.f() * (PI / 2.0 - tl - 0.02)) * if rng.coin() { 1.0 } else { -1.0 }; lon = (rng.below(5) as f64) * PI / 2.0 + (rng.f() - 0.5) * 6.0 * r / lat.cos(); }
    3 => { lat = (PI / 2.0 - rng.f() * 3.0 * r) * if rng.coin() { 1.0 } else { -1.0 }; }
    4 => { lon = (rng.below(9) as f64) * PI / 4.0 + (rng.f() - 0.5) * 4.0 * r; }
    _ => {}
  }
  lat = lat.max(-PI / 2.0).min(PI / 2.0);
  Case::new("bsd").f("r", r).f("lon", lon.rem_euclid(TWO_PI)).f("lat", lat)
}

pub fn judge_bsd(ctx: &mut Ctx, c: &Case, thr: &[f64]) {
  let (r, lon, lat) = (c.gf("r"), c.gf("lon"), c.gf("lat"));
  if !(r < thr[0]) { return; } // refusal of larger radii is checked in bsd_table
  ctx.eval();
  let d = match catch(|| cdshealpix::best_starting_depth(r)) { Ok(d) => d, Err(e) => { ctx.violation("best_starting_depth-panics-below-the-depth0-limit", c.clone(), e); return; } };
  // linear scan of the bisected thresholds: deepest depth whose limit still exceeds r
  let want = (0..30).rev().find(|&k| r < thr[k]).unwrap_or(0) as u8;
  if d != want { ctx.violation("best_starting_depth-not-the-deepest-depth-whose-limit-exceeds-r", c.clone(), format!("got {} want {}", d, want)); return; }
  if d > 29 { ctx.violation("best_starting_depth-out-of-range", c.clone(), format!("{}", d)); return; }
  // containment: the cone is inside the cell of its centre + neighbours at that depth
  ctx.eval();
  let layer = nested::get_or_create(d);
  let hc = layer.hash(lon, lat);
  let ng = layer.neighbours(hc, true).values_vec();
  let mut bad: Option<((f64, f64), u64)> = None;
  if c.get("qlon").is_some() { // probe on the geodesic from the centre through q, at distance r(1 - 1e-9)
    let (vc, vq) = (v3((lon, lat)), v3((c.gf("qlon"), c.gf("qlat")))); let cq = dot(vc, vq);
    let mut t = [vq[0] - cq * vc[0], vq[1] - cq * vc[1], vq[2] - cq * vc[2]]; let nt = norm(t);
    if nt > 0.0 { t = [t[0] / nt, t[1] / nt, t[2] / nt]; let (sr, cr) = f64::sin_cos(if c.get("probe_in").is_some() { r - c.gf("probe_in") } else { r * (1.0 - 1e-9) });
      let pv = [vc[0] * cr + t[0] * sr, vc[1] * cr + t[1] * sr, vc[2] * cr + t[2] * sr];
      let p = (pv[1].atan2(pv[0]).rem_euclid(TWO_PI), pv[2].atan2((pv[0] * pv[0] + pv[1] * pv[1]).sqrt()));
      let h = layer.hash(p.0, p.1); if !ng.contains(&h) { bad = Some((p, h)); }
      ctx.hard("bsd:thinnest-cell-witness", &[r.to_bits(), c.gu("wd")]); }
  }
  if bad.is_none() { for k in 0..96 { let p = point_at(lon, lat, r * (1.0 - 1e-9), (k as f64 + 0.25) * TWO_PI / 96.0); let h = layer.hash(p.0, p.1); if !ng.contains(&h) { bad = Some((p, h)); break; } } }
  let ratio = r / thr[d as usize];
  let tl = trans_lat();
  let dl = { let m = lon.rem_euclid(PI / 2.0); m.min(PI / 2.0 - m) };
  let cc = c.clone().u("start_depth", d as u64).f("ratio", ratio).f("dlon_seam", dl);
  if let Some((p, h)) = bad { ctx.violation("cone-of-radius-r-leaves-the-centre-cell-and-its-neighbours-at-best_starting_depth", cc, format!("depth {} r/threshold={:.6} boundary point {:?} in cell {} not in N({})", d, ratio, p, h, hc)); }
  if ratio > 0.95 { ctx.hard("bsd:radius-within-5%-of-threshold", &[r.to_bits(), lon.to_bits(), lat.to_bits()]); if lat.abs() > tl && dl < 0.15 { ctx.hard("bsd:...and-polar-cap-seam", &[r.to_bits(), lon.to_bits(), lat.to_bits()]); } } else { ctx.bump("plain-bsd-cases"); }
}

/// exactness at the tabulated limits themselves (table read through the cfg(cdshealpix_verif) hook): "the deepest depth whose tabulated
/// limit still EXCEEDS r": at r == T[d] the answer is d - 1, one ulp below it is d; the thresholds located by bisection are the entries
fn bsd_exact(ctx: &mut Ctx, thr: &[f64]) {
  let t = cdshealpix::verif::best_starting_depth_table();
  for d in 0..30usize {
    ctx.evals_n(3);
    let c = Case::new("bsd-table").u("d", d as u64).f("r", t[d]);
    if d > 0 {
      match catch(|| cdshealpix::best_starting_depth(t[d])) { Ok(g) => if g as usize != d - 1 { ctx.violation("best_starting_depth-not-the-deepest-depth-whose-limit-exceeds-r", c.clone(), format!("r equal to the limit of depth {}: got {} want {}", d, g, d - 1)); }, Err(e) => ctx.violation("best_starting_depth-panics-below-the-depth0-limit", c.clone(), e) }
    } else if cdshealpix::has_best_starting_depth(t[0]) || catch(|| cdshealpix::best_starting_depth(t[0])).is_ok() { ctx.violation("radius>=depth0-limit-not-refused", c.clone(), "r equal to the depth-0 limit".into()); }
    let below = nudge(t[d], -1);
    match catch(|| cdshealpix::best_starting_depth(below)) { Ok(g) => if g as usize != d { ctx.violation("best_starting_depth-not-the-deepest-depth-whose-limit-exceeds-r", c.clone().f("r", below), format!("r one ulp below the limit of depth {}: got {} want {}", d, g, d)); }, Err(e) => ctx.violation("best_starting_depth-panics-below-the-depth0-limit", c.clone().f("r", below), e) }
    if thr[d] != t[d] { ctx.violation("best_starting_depth-not-the-deepest-depth-whose-limit-exceeds-r", c.clone(), format!("threshold located by bisection {:e} differs from the tabulated limit {:e} of depth {}", thr[d], t[d], d)); }
    ctx.hard("bsd:radius-equal-to-a-tabulated-limit", &[d as u64]);
  }
}

fn bsd_table(ctx: &mut Ctx, thr: &[f64]) {
  // thresholds strictly decreasing; function non-increasing over a dense log grid; refusal consistent
  for d in 1..30 { ctx.eval(); if !(thr[d] < thr[d - 1]) { ctx.violation("thresholds-not-decreasing-with-depth", Case::new("bsd-table").u("d", d as u64), format!("{:e} vs {:e}", thr[d], thr[d - 1])); } }
  let mut prev = 29u8; let mut seen = [false; 30];
  let n = 200000;
  for k in 0..n {
    let r = 1e-10 * (thr[0] * (1.0 - 1e-15) / 1e-10f64).powf(k as f64 / (n - 1) as f64);
    if !(r < thr[0]) { continue; }
    ctx.eval();
    match catch(|| cdshealpix::best_starting_depth(r)) {
      Err(e) => ctx.violation("best_starting_depth-panics-below-the-depth0-limit", Case::new("bsd-table").f("r", r), e),
      Ok(d) => { if d > prev { ctx.violation("best_starting_depth-increases-with-radius", Case::new("bsd-table").f("r", r), format!("{} after {}", d, prev)); } prev = d; if d < 30 { seen[d as usize] = true; } }
    }
  }
  for d in 0..30 { ctx.eval(); if !seen[d] { ctx.violation("depth-never-returned-by-best_starting_depth", Case::new("bsd-table").u("d", d as u64), String::new()); } }
  for &r in [thr[0], nudge(thr[0], 1), thr[0] * 1.5, 2.0, PI, 10.0, f64::INFINITY].iter() {
    ctx.eval();
    let has = cdshealpix::has_best_starting_depth(r);
    let ok = catch(|| cdshealpix::best_starting_depth(r)).is_ok();
    if has || ok { ctx.violation("radius>=depth0-limit-not-refused", Case::new("bsd-table").f("r", r), format!("has={} returns={}", has, ok)); } else { ctx.bump("rejections-observed"); ctx.hard("bsd:refused-radius", &[r.to_bits()]); }
  }
  for &r in [nudge(thr[0], -1), thr[0] * 0.99, 1e-3, 1e-12, 0.0].iter() {
    ctx.eval();
    if !cdshealpix::has_best_starting_depth(r) || catch(|| cdshealpix::best_starting_depth(r)).is_err() { ctx.violation("radius-below-depth0-limit-refused", Case::new("bsd-table").f("r", r), String::new()); }
  }
}

fn replay(ctx: &mut Ctx, c: &Case) {
  match c.mon() {
    "cell" => { let mut rng = Rng::new(ctx.seed, 1); judge_cell(ctx, c.gu("depth") as u8, c.gu("h"), &mut rng); }
    "cone" => judge_cone(ctx, c),
    "bsd" => { let thr = bsd_thresholds(); judge_bsd(ctx, c, &thr); }
    "bsd-table" => { let thr = bsd_thresholds(); bsd_table(ctx, &thr); }
    m => ctx.inconclusive(&format!("unknown replay monitor {}", m)),
  }
}
