//! C14 — internal / external edges of a cell at a deeper depth.
use crate::gen::*;
use crate::refm::*;
use crate::util::*;
use crate::Monitor;
use cdshealpix::compass_point::{Cardinal, MainWind, Ordinal};
use cdshealpix::nested::{self, Layer};
use std::collections::{BTreeMap, BTreeSet};

pub fn monitor() -> Monitor {
  Monitor { id: "C14",
    rule: "(cell, delta) pairs with depth+delta <= 29: delta = 0 on 9 cells of depths 0..29 (the cell is its own border, its external edge is its neighbour set), delta >= 1 (plus, per run, 16 cells with delta drawn from 7..22 (..24 thorough) so that the small / medium / large z-order implementations and their top bits are all exercised: boxed vs append helpers, external edge (all forms) against the neighbours of the deep border cells): every cell of depths <= 2 with delta <= 4 (quick) / depths <= 4 with delta <= 6 (thorough); deeper depths: the class sample (corners / borders / second ring / centre of each of the 12 base cells) plus uniform cells, delta in 1..=6 and the largest delta allowed. Expected internal walk is built from the reference bit-interleave; the expected external set from the crate's neighbours (judged geometrically by C04) of the deep border cells, with a geometric spot check. Non-trivial = cell on a base-cell border/corner (the external edge crosses a seam) or depth+delta == 29.",
    assumptions: &["Layer::neighbours is geometrically correct (property C04, judged in its own run) — used to build the expected external set", "reference bit-interleave"],
    run, replay }
}

fn card(k: usize) -> Cardinal { Cardinal::from_index(k as u8) }
fn ord(k: usize) -> Ordinal { match k { 0 => Ordinal::SE, 1 => Ordinal::SW, 2 => Ordinal::NE, _ => Ordinal::NW } }
fn card_mw(k: usize) -> MainWind { match k { 0 => MainWind::S, 1 => MainWind::E, 2 => MainWind::N, _ => MainWind::W } }
fn ord_mw(k: usize) -> MainWind { match k { 0 => MainWind::SE, 1 => MainWind::SW, 2 => MainWind::NE, _ => MainWind::NW } }

fn run(ctx: &mut Ctx, extra: &mut BTreeMap<String, String>) {
  let seed = ctx.seed;
  let small = ctx.pass != "release";
  let (exh_d, exh_dd) = if ctx.thorough { if small { (2u8, 4u8) } else { (4, 6) } } else if small { (1, 3) } else { (2, 4) };
  let n_cells = if ctx.thorough { if small { 30 } else { 400 } } else if small { 8 } else { 40 };
  extra.insert("exhaustive".into(), jstr(&format!("depth<={} delta<={}", exh_d, exh_dd)));
  let shards = 16usize;
  run_sharded(ctx, shards, |c, k| {
    let mut rng = Rng::new(seed, 1400 + k as u64);
    for depth in 0..29u8 {
      let layer = nested::get_or_create(depth);
      let cells: Vec<u64> = if depth <= exh_d { (0..n_hash(depth)).filter(|h| (*h as usize) % shards == k).collect() }
        else { let v = sample_cells(&mut rng, depth, n_cells); v.into_iter().enumerate().filter(|(i, _)| i % shards == k).map(|(_, h)| h).collect() };
      for &h in cells.iter() {
        let mut dds: Vec<u8> = if depth <= exh_d { (1..=exh_dd).collect() } else { vec![1, 2, 1 + rng.below(6) as u8] };
        if rng.below(4) == 0 && 29 - depth <= 9 { dds.push(29 - depth); }
        dds.sort(); dds.dedup();
        for &dd in dds.iter() { if dd >= 1 && depth + dd <= 29 { judge(c, layer, depth, h, dd, &mut rng); } }
      }
    }
    if k == 0 { wrappers(c); }
    // larger deltas, one list entry per shard: the z-order implementation is chosen by delta (<= 8 small, 9..16 medium, >= 17 large) and the
    // top bits of each class are where a truncated mask shows (delta 15/16 for the medium one). Debug builds: delta <= 13 (speed).
    let list: &[u8] = if c.pass == "debug" { &[7, 8, 9, 10, 11, 12, 13, 9, 8, 10, 11, 12, 13, 7, 9, 10] } else { &[16, 15, 17, 9, 12, 18, 14, 21, 16, 15, 10, 20, 17, 22, 13, 19] };
    // (delta 20..22: 4.2 to 16.8 million border cells, results of 32 to 134 MB: size-gated code paths; 23 and 24 in the thorough tier)
    let n_big = if c.thorough && c.pass != "debug" { 4 } else { 1 };
    for q in 0..n_big { let dd = if c.thorough && c.pass == "release" && q == 3 && (k == 2 || k == 9) { 23 + (k == 9) as u8 } else { list[(k + 5 * q) % list.len()] }; let depth = rng.below(10u64.min(30 - dd as u64)) as u8; let cs = sample_cells(&mut rng, depth, 8); let h = cs[rng.below(cs.len() as u64) as usize]; judge_big(c, nested::get_or_create(depth), depth, h, dd); }
  });
}

pub fn judge(ctx: &mut Ctx, layer: &'static Layer, depth: u8, h: u64, dd: u8, rng: &mut Rng) {
  let mk = || Case::new("edge").u("depth", depth as u64).u("h", h).u("dd", dd as u64);
  let deep = nested::get_or_create(depth + dd);
  let m = (1u32 << dd) - 1;
  let base = h << (2 * dd);
  // expected closed walk S -> E -> N -> W -> (S)
  let mut walk = Vec::with_capacity(4 * m as usize);
  for k in 0..m { walk.push(base | interleave(k, 0)); }
  for k in 0..m { walk.push(base | interleave(m, k)); }
  for k in 0..m { walk.push(base | interleave(m - k, m)); }
  for k in 0..m { walk.push(base | interleave(0, m - k)); }
  let mut sw = walk.clone(); sw.sort(); sw.dedup();
  ctx.evals_n(2);
  match catch(|| Layer::internal_edge(h, dd)) {
    Err(p) => ctx.violation("internal_edge-panics", mk(), p),
    Ok(v) => {
      if v.len() != 4 * (1usize << dd) - 4 { ctx.violation("internal_edge-wrong-count", mk(), format!("{} cells, expected {}", v.len(), 4 * (1usize << dd) - 4)); }
      if v.to_vec() != walk { ctx.violation("internal_edge-not-the-border-walk-from-south-through-east", mk(), format!("got {:?}.. want {:?}..", &v[..v.len().min(10)], &walk[..walk.len().min(10)])); }
      // consecutive cells adjacent (closed walk) — spot check with the crate's deep neighbours
      if dd <= 5 { for i in 0..v.len() { let a = v[i]; let b = v[(i + 1) % v.len()]; if a < n_hash(depth + dd) && !deep.neighbours(a, false).values_vec().contains(&b) && v.len() > 1 { ctx.violation("internal_edge-consecutive-cells-not-adjacent", mk().u("i", i as u64), format!("{} then {}", a, b)); break; } } }
    }
  }
  match catch(|| Layer::internal_edge_sorted(h, dd)) {
    Err(p) => ctx.violation("internal_edge_sorted-panics", mk(), p),
    Ok(v) => if v.to_vec() != sw { ctx.violation("internal_edge_sorted-not-the-sorted-border-set", mk(), format!("got {:?}.. want {:?}..", &v[..v.len().min(12)], &sw[..sw.len().min(12)])); }
  }
  // corners and parts
  ctx.eval();
  let corners = [base, base | interleave(m, 0), base | interleave(m, m), base | interleave(0, m)]; // S E N W
  for k in 0..4 {
    match catch(|| nested::internal_corner(h, dd, &card(k))) { Ok(c) => if c != corners[k] { ctx.violation("internal_corner-wrong", mk().u("k", k as u64), format!("got {} want {}", c, corners[k])); }, Err(p) => ctx.violation("internal_corner-panics", mk().u("k", k as u64), p) }
  }
  // sides: SE = j==0, SW = i==0, NE = i==m, NW = j==m
  for k in 0..4 {
    ctx.eval();
    let want: BTreeSet<u64> = (0..=m).map(|t| base | match k { 0 => interleave(t, 0), 1 => interleave(0, t), 2 => interleave(m, t), _ => interleave(t, m) }).collect();
    match catch(|| nested::internal_edge_part(h, dd, &ord(k))) {
      Err(p) => ctx.violation("internal_edge_part-panics", mk().u("k", k as u64), p),
      Ok(v) => { let got: BTreeSet<u64> = v.iter().copied().collect(); if got != want || got.len() != v.len() { ctx.violation("internal_edge_part-not-the-cells-of-that-side", mk().u("k", k as u64), format!("got {} cells {:?}.. want {} cells", v.len(), &v[..v.len().min(8)], want.len())); } }
    }
  }
  // the appending helpers (used by external_edge) must give the same cells as the boxed helpers
  for k in 0..4 {
    ctx.eval();
    match catch(|| { let mut v = vec![7u64]; nested::append_internal_edge_part(h, dd, &ord(k), &mut v); (v, nested::internal_edge_part(h, dd, &ord(k))) }) {
      Err(p) => ctx.violation("append_internal_edge_part-panics", mk().u("k", k as u64), p),
      Ok((v, w)) => { if v.len() != w.len() + 1 || v[0] != 7 || v[1..] != w[..] { let i = (0..w.len().min(v.len().saturating_sub(1))).find(|&i| v[i + 1] != w[i]).unwrap_or(0); ctx.violation("append_internal_edge_part-differs-from-internal_edge_part", mk().u("k", k as u64), format!("lengths {} vs {}; first difference at index {}: {} vs {}", v.len() - 1, w.len(), i, v.get(i + 1).copied().unwrap_or(0), w.get(i).copied().unwrap_or(0))); } }
    }
  }
  // external set expected from the neighbours of the deep border cells
  let mut ext = BTreeSet::new();
  for &c in sw.iter() { for g in deep.neighbours(c, false).values_vec() { if g >> (2 * dd) != h { ext.insert(g); } } }
  let want: Vec<u64> = ext.iter().copied().collect();
  ctx.evals_n(3);
  match catch(|| layer.external_edge(h, dd)) {
    Err(p) => ctx.violation("external_edge-panics", mk(), p),
    Ok(v) => { let mut g = v.to_vec(); let n0 = g.len(); g.sort(); g.dedup(); if g.len() != n0 { ctx.violation("external_edge-has-duplicates", mk(), format!("{} cells, {} distinct", n0, g.len())); } if g != want { ctx.violation("external_edge-not-the-adjacent-outside-cells", mk(), format!("got {} want {}", g.len(), want.len())); } }
  }
  match catch(|| layer.external_edge_sorted(h, dd)) {
    Err(p) => ctx.violation("external_edge_sorted-panics", mk(), p),
    Ok(v) => if v.to_vec() != want { ctx.violation("external_edge_sorted-not-the-sorted-set", mk(), format!("got {:?}.. want {:?}..", &v[..v.len().min(12)], &want[..want.len().min(12)])); }
  }
  match catch(|| layer.external_edge_struct(h, dd)) {
    Err(p) => ctx.violation("external_edge_struct-panics", mk(), p),
    Ok(e) => {
      let nm = layer.neighbours(h, false);
      let mut all = BTreeSet::new();
      for k in 0..4 {
        let got = e.get_corner(&card(k));
        let want_c: Vec<u64> = match nm.get(card_mw(k)) { None => vec![], Some(&g) => want.iter().copied().filter(|x| x >> (2 * dd) == g).collect() };
        if want_c.len() > 1 { ctx.n_oracle_ambiguous += 1; }
        else if got != want_c.get(0).copied() { ctx.violation("external_edge_struct-corner-wrong", mk().u("k", k as u64), format!("dir={:?} got {:?} want {:?}", card(k), got, want_c)); }
        if let Some(g) = got { all.insert(g); }
      }
      for k in 0..4 {
        let mut got = e.get_edge(&ord(k)).to_vec(); let n0 = got.len(); got.sort(); got.dedup();
        let want_e: Vec<u64> = match nm.get(ord_mw(k)) { None => vec![], Some(&g) => want.iter().copied().filter(|x| x >> (2 * dd) == g).collect() };
        if got != want_e || got.len() != n0 { ctx.violation("external_edge_struct-side-wrong", mk().u("k", k as u64), format!("dir={:?} got {:?}.. want {:?}..", ord(k), &got[..got.len().min(8)], &want_e[..want_e.len().min(8)])); }
        for g in got { all.insert(g); }
      }
      if all != ext { ctx.violation("external_edge_struct-union-differs-from-external-set", mk(), format!("{} vs {}", all.len(), ext.len())); }
    }
  }
  // free functions agree
  ctx.eval();
  if depth + dd <= 29 { if let (Ok(a), Ok(b)) = (catch(|| nested::external_edge_sorted(depth, h, dd)), catch(|| layer.external_edge_sorted(h, dd))) { if a != b { ctx.violation("free-fn-external_edge_sorted-differs", mk(), String::new()); } } }
  // geometric spot check of the expected set (1 % of the judgements): every external cell touches the border of h
  if rng.below(100) == 0 && !want.is_empty() {
    ctx.eval();
    let g = want[rng.below(want.len() as u64) as usize];
    let gv = ref_vertices(depth + dd, g);
    let hv = ref_border_points(depth, h, 4 * (1usize << dd.min(6)) - 1);
    let cell = 1.0 / nside(depth + dd) as f64;
    let dmin = gv.iter().map(|p| hv.iter().map(|q| dist(*p, *q)).fold(f64::INFINITY, f64::min)).fold(f64::INFINITY, f64::min);
    ctx.bump("geometric-spot-checks");
    if dd <= 6 && dmin > 1e-6 * cell + 1e-15 { ctx.inconclusive(&format!("expected external cell {} of ({}, {}, dd={}) does not touch the cell border geometrically (d={:e})", g, depth, h, dd, dmin)); }
  }
  let cls = cell_class(depth, h);
  if !cls.is_empty() { ctx.hard(&format!("cell:{}", cls), &[depth as u64, h, dd as u64]); }
  if depth + dd == 29 { ctx.hard("depth+delta=29", &[depth as u64, h, dd as u64]); }
  if ctx.samples.len() < 6 && !cls.is_empty() && depth > 3 && h % 3 == 0 { ctx.sample(&mk(), &format!("internal {} cells, external {} cells, class={}", walk.len(), want.len(), cls)); }
}

/// large delta (17..20): 4 x 2^delta border cells — the z-order class changes at delta 17; lighter oracle (vectors, no per-cell walks)
pub fn judge_big(ctx: &mut Ctx, layer: &'static Layer, depth: u8, h: u64, dd: u8) {
  let mk = || Case::new("big").u("depth", depth as u64).u("h", h).u("dd", dd as u64);
  let deep = nested::get_or_create(depth + dd);
  let m = (1u32 << dd) - 1; let base = h << (2 * dd);
  // helpers vs reference interleave
  for k in 0..4 {
    ctx.eval();
    let want: Vec<u64> = (0..=m).map(|t| base | match k { 0 => interleave(t, 0), 1 => interleave(0, t), 2 => interleave(m, t), _ => interleave(t, m) }).collect();
    match catch(|| { let mut v = Vec::new(); nested::append_internal_edge_part(h, dd, &ord(k), &mut v); (v, nested::internal_edge_part(h, dd, &ord(k))) }) {
      Err(p) => ctx.violation("append_internal_edge_part-panics", mk().u("k", k as u64), p),
      Ok((mut v, w)) => {
        let mut ws = w.to_vec(); ws.sort(); let mut wsr = want.clone(); wsr.sort();
        if ws != wsr { ctx.violation("internal_edge_part-not-the-cells-of-that-side", mk().u("k", k as u64), format!("{} cells", w.len())); }
        v.sort(); if v != wsr { let nd = { let mut d = v.clone(); d.dedup(); d.len() }; ctx.violation("append_internal_edge_part-differs-from-internal_edge_part", mk().u("k", k as u64), format!("{} cells, {} distinct, expected {}", v.len(), nd, wsr.len())); }
      }
    }
  }
  // external edge: expected = neighbours of the deep border cells outside h
  let mut border: Vec<u64> = Vec::with_capacity(4 * (m as usize + 1));
  for t in 0..=m { border.push(base | interleave(t, 0)); border.push(base | interleave(0, t)); border.push(base | interleave(m, t)); border.push(base | interleave(t, m)); }
  border.sort(); border.dedup();
  let mut want: Vec<u64> = Vec::with_capacity(border.len() * 3);
  for &c in border.iter() { for g in deep.neighbours(c, false).values_vec() { if g >> (2 * dd) != h { want.push(g); } } }
  want.sort(); want.dedup();
  ctx.evals_n(2);
  match catch(|| layer.external_edge_sorted(h, dd)) {
    Err(p) => ctx.violation("external_edge_sorted-panics", mk(), p),
    Ok(v) => if v[..] != want[..] { let nd = { let mut d = v.to_vec(); d.sort(); d.dedup(); d.len() }; ctx.violation("external_edge_sorted-not-the-sorted-set", mk(), format!("{} cells ({} distinct), expected {}", v.len(), nd, want.len())); }
  }
  match catch(|| layer.external_edge(h, dd)) {
    Err(p) => ctx.violation("external_edge-panics", mk(), p),
    Ok(v) => { let mut g = v.to_vec(); let n0 = g.len(); g.sort(); g.dedup(); if g.len() != n0 { ctx.violation("external_edge-has-duplicates", mk(), format!("{} cells, {} distinct", n0, g.len())); } else if g != want { ctx.violation("external_edge-not-the-adjacent-outside-cells", mk(), format!("got {} want {}", g.len(), want.len())); } }
  }
  // internal edge: the closed walk S -> E -> N -> W, and its sorted form
  ctx.evals_n(2);
  let mut walk: Vec<u64> = Vec::with_capacity(4 * m as usize);
  for t in 0..m { walk.push(base | interleave(t, 0)); }
  for t in 0..m { walk.push(base | interleave(m, t)); }
  for t in 0..m { walk.push(base | interleave(m - t, m)); }
  for t in 0..m { walk.push(base | interleave(0, m - t)); }
  match catch(|| Layer::internal_edge(h, dd)) {
    Err(p) => ctx.violation("internal_edge-panics", mk(), p),
    Ok(v) => if v[..] != walk[..] { ctx.violation("internal_edge-not-the-border-walk-from-south-through-east", mk(), format!("{} cells, first difference at {:?}", v.len(), v.iter().zip(walk.iter()).position(|(a, b)| a != b))); }
  }
  match catch(|| Layer::internal_edge_sorted(h, dd)) {
    Err(p) => ctx.violation("internal_edge_sorted-panics", mk(), p),
    Ok(v) => { let mut w = walk.clone(); w.sort(); if v[..] != w[..] { ctx.violation("internal_edge_sorted-not-the-sorted-border-set", mk(), format!("{} cells", v.len())); } }
  }
  ctx.hard(&format!("big-delta:z-order-class-{}", if dd <= 8 { "small" } else if dd <= 16 { "medium" } else { "large" }), &[depth as u64, h, dd as u64]);
}

/// the convenience wrappers must accept every depth + delta <= 29
fn wrappers(ctx: &mut Ctx) {
  for &(d, dd) in [(27u8, 2u8), (28, 1), (20, 9), (0, 29 - 24), (26, 2), (25, 3)].iter() {
    ctx.evals_n(2);
    let c = Case::new("wrapper").u("depth", d as u64).u("dd", dd as u64);
    match catch(|| nested::internal_edge(d, 7, dd)) { Ok(v) => if v.to_vec() != Layer::internal_edge(7, dd).to_vec() { ctx.violation("free-fn-internal_edge-differs", c.clone(), String::new()); }, Err(p) => ctx.violation("free-fn-internal_edge-rejects-valid-depth+delta", c.clone(), p) }
    match catch(|| nested::internal_edge_sorted(d, 7, dd)) { Ok(_) => {}, Err(p) => ctx.violation("free-fn-internal_edge_sorted-rejects-valid-depth+delta", c.clone(), p) }
    ctx.hard("wrapper", &[d as u64, dd as u64]);
  }
  // every public spelling of the same thing: free-function wrappers of the external edge, and the direction-specific helpers behind the
  // dispatchers internal_corner / internal_edge_part / append_internal_edge_part
  for &(d, h, dd) in [(0u8, 3u64, 1u8), (1, 17, 3), (2, 100, 2), (5, 9000, 4), (12, 123_456, 9), (3, 767, 16), (0, 8, 17), (20, 5_000_000_000, 2)].iter() {
    let layer = nested::get_or_create(d);
    ctx.evals_n(12);
    let c = Case::new("wrapper").u("depth", d as u64).u("h", h).u("dd", dd as u64);
    match catch(|| (nested::external_edge(d, h, dd).to_vec(), layer.external_edge(h, dd).to_vec(), nested::external_edge_sorted(d, h, dd).to_vec(), layer.external_edge_sorted(h, dd).to_vec())) {
      Err(p) => ctx.violation("external_edge-panics", c.clone(), p),
      Ok((a, b, cs, ds)) => { if a != b { ctx.violation("free-fn-external_edge-differs", c.clone(), String::new()); } if cs != ds { ctx.violation("free-fn-external_edge_sorted-differs", c.clone(), String::new()); } }
    }
    match catch(|| { let (x, y) = (nested::external_edge_struct(d, h, dd), layer.external_edge_struct(h, dd));
      (0..4).all(|k| x.get_corner(&card(k)) == y.get_corner(&card(k)) && x.get_edge(&ord(k)) == y.get_edge(&ord(k))) }) {
      Err(p) => ctx.violation("external_edge_struct-panics", c.clone(), p),
      Ok(same) => if !same { ctx.violation("free-fn-external_edge_struct-differs", c.clone(), String::new()); }
    }
    let r = catch(|| {
      let mut bad: Vec<&'static str> = Vec::new();
      if nested::internal_corner_south(h, dd) != nested::internal_corner(h, dd, &Cardinal::S) { bad.push("internal_corner_south"); }
      if nested::internal_corner_east(h, dd) != nested::internal_corner(h, dd, &Cardinal::E) { bad.push("internal_corner_east"); }
      if nested::internal_corner_north(h, dd) != nested::internal_corner(h, dd, &Cardinal::N) { bad.push("internal_corner_north"); }
      if nested::internal_corner_west(h, dd) != nested::internal_corner(h, dd, &Cardinal::W) { bad.push("internal_corner_west"); }
      if nested::internal_edge_southeast(h, dd) != nested::internal_edge_part(h, dd, &Ordinal::SE) { bad.push("internal_edge_southeast"); }
      if nested::internal_edge_southwest(h, dd) != nested::internal_edge_part(h, dd, &Ordinal::SW) { bad.push("internal_edge_southwest"); }
      if nested::internal_edge_northeast(h, dd) != nested::internal_edge_part(h, dd, &Ordinal::NE) { bad.push("internal_edge_northeast"); }
      if nested::internal_edge_northwest(h, dd) != nested::internal_edge_part(h, dd, &Ordinal::NW) { bad.push("internal_edge_northwest"); }
      let ap = |f: &dyn Fn(u64, u8, &mut Vec<u64>)| { let mut v = vec![7u64]; f(h, dd, &mut v); v };
      let dp = |o: &Ordinal| { let mut v = vec![7u64]; nested::append_internal_edge_part(h, dd, o, &mut v); v };
      if ap(&nested::append_internal_edge_southeast) != dp(&Ordinal::SE) { bad.push("append_internal_edge_southeast"); }
      if ap(&nested::append_internal_edge_southwest) != dp(&Ordinal::SW) { bad.push("append_internal_edge_southwest"); }
      if ap(&nested::append_internal_edge_northeast) != dp(&Ordinal::NE) { bad.push("append_internal_edge_northeast"); }
      if ap(&nested::append_internal_edge_northwest) != dp(&Ordinal::NW) { bad.push("append_internal_edge_northwest"); }
      // appending keeps what was already in the vector and adds exactly the cells of the side
      { let v = dp(&Ordinal::NE); let mut tail = v[1..].to_vec(); tail.sort(); let mut want = nested::internal_edge_part(h, dd, &Ordinal::NE).to_vec(); want.sort(); if v[0] != 7 || tail != want { bad.push("append_internal_edge_part-does-not-append-the-side"); } }
      bad
    });
    match r { Err(p) => ctx.violation("internal_corner-panics", c.clone(), p), Ok(bad) => for b in bad { ctx.violation("direction-specific-helper-differs-from-its-dispatcher", c.clone().s("fn", b), b.to_string()); } }
    ctx.hard("wrapper", &[d as u64, h, dd as u64]);
  }
  // delta_depth = 0 (legal at every depth, the only legal value at depth 29): the cell is its own border ring, its external edge is its
  // set of neighbours. (The count 4.2^delta - 4 of the statement is degenerate there; the set definitions are not.)
  for &(d, h) in [(0u8, 0u64), (0, 5), (0, 11), (1, 17), (3, 100), (3, 767), (10, 5_000_000), (29, 0), (29, 3_458_764_513_820_540_927)].iter() {
    let layer = nested::get_or_create(d);
    let c = Case::new("wrapper").u("depth", d as u64).u("h", h).u("dd", 0);
    ctx.evals_n(6);
    let ngb_map = layer.neighbours(h, false);
    let mut ngb: Vec<u64> = ngb_map.values_vec(); ngb.sort();
    match catch(|| (Layer::internal_edge(h, 0).to_vec(), Layer::internal_edge_sorted(h, 0).to_vec(), (0..4).map(|k| nested::internal_corner(h, 0, &card(k))).collect::<Vec<u64>>(), (0..4).map(|k| nested::internal_edge_part(h, 0, &ord(k)).to_vec()).collect::<Vec<Vec<u64>>>())) {
      Err(p) => ctx.violation("internal_edge-panics", c.clone(), p),
      Ok((ie, ies, corners, parts)) => {
        if ie != vec![h] || ies != vec![h] { ctx.violation("internal_edge-not-the-border-walk-from-south-through-east", c.clone(), format!("delta 0: {:?} / sorted {:?}, expected [{}]", ie, ies, h)); }
        if corners.iter().any(|&x| x != h) { ctx.violation("internal_corner-wrong", c.clone(), format!("delta 0: {:?}", corners)); }
        if parts.iter().any(|v| v[..] != [h]) { ctx.violation("internal_edge_part-not-the-cells-of-that-side", c.clone(), format!("delta 0: {:?}", parts)); }
      }
    }
    match catch(|| (layer.external_edge(h, 0).to_vec(), layer.external_edge_sorted(h, 0).to_vec())) {
      Err(p) => ctx.violation("external_edge-panics", c.clone(), p),
      Ok((e, es)) => { let mut g = e.clone(); g.sort(); let n0 = g.len(); g.dedup();
        if g.len() != n0 { ctx.violation("external_edge-has-duplicates", c.clone(), format!("{:?}", e)); } else if g != ngb { ctx.violation("external_edge-not-the-adjacent-outside-cells", c.clone(), format!("delta 0: {:?}, neighbours {:?}", e, ngb)); }
        if es != ngb { ctx.violation("external_edge_sorted-not-the-sorted-set", c.clone(), format!("delta 0: {:?}, neighbours {:?}", es, ngb)); } }
    }
    match catch(|| { let x = layer.external_edge_struct(h, 0); ((0..4).map(|k| x.get_corner(&card(k))).collect::<Vec<_>>(), (0..4).map(|k| x.get_edge(&ord(k)).to_vec()).collect::<Vec<_>>()) }) {
      Err(p) => ctx.violation("external_edge_struct-panics", c.clone(), p),
      Ok((cs, es)) => {
        for k in 0..4 { if cs[k] != ngb_map.get(card_mw(k)).copied() { ctx.violation("external_edge_struct-corner-wrong", c.clone().u("k", k as u64), format!("delta 0: {:?} vs neighbour {:?}", cs[k], ngb_map.get(card_mw(k)))); } }
        for k in 0..4 { let want: Vec<u64> = ngb_map.get(ord_mw(k)).copied().into_iter().collect(); if es[k] != want { ctx.violation("external_edge_struct-side-wrong", c.clone().u("k", k as u64), format!("delta 0: {:?} vs neighbour {:?}", es[k], want)); } }
      }
    }
    ctx.hard("delta_depth=0", &[d as u64, h]);
  }
}

fn replay(ctx: &mut Ctx, c: &Case) {
  match c.mon() {
    "edge" => { let depth = c.gu("depth") as u8; let mut rng = Rng::new(ctx.seed, 1); judge(ctx, nested::get_or_create(depth), depth, c.gu("h"), c.gu("dd") as u8, &mut rng); }
    "wrapper" => wrappers(ctx),
    "big" => { let depth = c.gu("depth") as u8; judge_big(ctx, nested::get_or_create(depth), depth, c.gu("h"), c.gu("dd") as u8); }
    m => ctx.inconclusive(&format!("unknown replay monitor {}", m)),
  }
}
