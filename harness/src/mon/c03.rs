//! C03 — geometry accessors mutually consistent and mapping back to their cell.
use crate::gen::*;
use crate::refm::*;
use crate::util::*;
use crate::Monitor;
use cdshealpix::compass_point::{Cardinal, CardinalSet, MainWind};
use cdshealpix::nested::{self, Layer};
use std::collections::BTreeMap;
use std::f64::consts::PI;

pub fn monitor() -> Monitor {
  Monitor { id: "C03",
    rule: "cells: every cell of depths <= 5 (quick) / <= 8 (thorough), and for every deeper depth up to 29 the class sample (4 corners, border runs, second ring, centre of each of the 12 base cells) plus uniform cells; per cell: centre vs reference (on the sphere and in the projection plane: center_of_projected_cell in its documented range), hash(centre), 4 random interior offsets through sph_coo -> hash / hash_with_dxdy, the three vertex accessors, edge paths (n=1,3,8; both directions; 4 start vertices; side paths) and grids (n=1,4) nudged 1% toward the centre, bad cell numbers. positions: the hostile position set (seams, cap meridians, poles, borders +-ulps, negative / >2pi longitudes) x 30 depths through hash_with_dxdy and, by the same rule, hash_dxdy_v2 (its fallback on rare branches, public). Non-trivial = cell on a base-cell border/corner or second ring (reference classification), or position in a special class / within 1e-9 cell of a border.",
    assumptions: &["reference cell geometry (refm.rs) correct to 2e-15 in the plane", "hash (C01) is used as the point-location oracle for nudged points"],
    run, replay }
}

fn towards(p: (f64, f64), c: (f64, f64), frac: f64) -> (f64, f64) {
  let (a, b) = (v3(p), v3(c));
  let v = [a[0] + frac * (b[0] - a[0]), a[1] + frac * (b[1] - a[1]), a[2] + frac * (b[2] - a[2])];
  let lon = v[1].atan2(v[0]).rem_euclid(TWO_PI);
  let lat = v[2].atan2((v[0] * v[0] + v[1] * v[1]).sqrt());
  (lon, lat)
}
fn card(k: usize) -> Cardinal { Cardinal::from_index(k as u8) }
/// plane offset (in units of 1/nside) of vertex k (S,E,N,W)
fn voff(k: usize) -> (f64, f64) { [(0.0, -1.0), (1.0, 0.0), (0.0, 1.0), (-1.0, 0.0)][k] }

fn run(ctx: &mut Ctx, extra: &mut BTreeMap<String, String>) {
  let seed = ctx.seed;
  let small = ctx.pass != "release";
  let exh = if ctx.thorough { if small { 5 } else { 8 } } else if small { 3 } else { 5 };
  let n_cells = if ctx.thorough { if small { 300 } else { 6000 } } else if small { 60 } else { 300 };
  let n_pts = if ctx.thorough { if small { 3000 } else { 60000 } } else if small { 500 } else { 4000 };
  extra.insert("exhaustive_up_to_depth".into(), format!("{}", exh));
  let shards = 16usize;
  run_sharded(ctx, shards, |c, k| {
    let mut rng = Rng::new(seed, 300 + k as u64);
    for depth in 0..30u8 {
      let layer = nested::get_or_create(depth);
      let cells: Vec<u64> = if depth <= exh { (0..n_hash(depth)).filter(|h| (*h as usize) % shards == k).collect() }
        else { let v = sample_cells(&mut rng, depth, n_cells); let m = v.len(); v.into_iter().enumerate().filter(|(i, _)| if m > 400 { true } else { i % shards == k }).map(|(_, h)| h).collect() };
      let heavy_every = if depth <= exh && depth > 3 { 7 } else { 1 };
      for (n, &h) in cells.iter().enumerate() { judge_cell(c, layer, depth, h, &mut rng, n % heavy_every == 0); }
      if k == depth as usize % shards { rejections(c, layer, depth); }
    }
    let mut pts = hostile_points(&mut rng, n_pts);
    if k != 0 { let g = grid_points().len(); pts.drain(0..g); }
    for &(lon, lat) in pts.iter() { for depth in 0..30u8 { judge_hwd(c, nested::get_or_create(depth), depth, lon, lat, None); } }
  });
}

pub fn judge_cell(ctx: &mut Ctx, layer: &'static Layer, depth: u8, h: u64, rng: &mut Rng, heavy: bool) {
  let cell = |mon: &str| Case::new(mon).u("depth", depth as u64).u("h", h);
  let ns = nside(depth) as f64;
  // centre
  ctx.evals_n(2);
  let c = match catch(|| layer.center(h)) { Ok(c) => c, Err(p) => { ctx.violation("center-panics", cell("cell"), p); return; } };
  let rc = ref_center(depth, h);
  let dc = dist(c, rc);
  ctx.worst_max("center_vs_reference_rad", dc);
  if dc > 1e-13 { ctx.violation("center-differs-from-reference", cell("cell"), format!("got {:?} ref {:?} d={:e}", c, rc, dc)); }
  match catch(|| layer.hash(c.0, c.1)) { Ok(hh) => if hh != h { ctx.violation("hash(center)-not-the-cell", cell("cell"), format!("got {}", hh)); }, Err(p) => ctx.violation("hash(center)-panics", cell("cell"), p) }
  // the same centre in the projection plane: documented range x in [0,8[, y in [-2,2]; equal to the reference (one image)
  ctx.eval();
  match catch(|| layer.center_of_projected_cell(h)) {
    Err(p) => ctx.violation("center_of_projected_cell-panics", cell("cell"), p),
    Ok((x, y)) => { let (rx, ry) = cell_center_proj(depth, h);
      let dx = { let d = (x - rx).rem_euclid(8.0); d.min(8.0 - d) };
      if !(x >= 0.0 && x < 8.0 && y >= -2.0 && y <= 2.0) { ctx.violation("center_of_projected_cell-out-of-documented-range", cell("cell"), format!("({}, {})", x, y)); }
      else if dx > 4e-15 || (y - ry).abs() > 4e-15 { ctx.violation("center_of_projected_cell-differs-from-reference", cell("cell"), format!("got ({}, {}) ref ({}, {})", x, y, rx, ry)); } }
  }
  // interior offsets
  for q in 0..4 {
    let (ox, oy) = if q == 0 { (0.5, 0.5) } else { (0.02 + 0.96 * rng.f(), 0.02 + 0.96 * rng.f()) };
    judge_offset(ctx, layer, depth, h, ox, oy);
  }
  // vertices: three accessors
  ctx.eval();
  match catch(|| (layer.vertices(h), layer.vertices_map(h, CardinalSet::all()), [layer.vertex(h, card(0)), layer.vertex(h, card(1)), layer.vertex(h, card(2)), layer.vertex(h, card(3))])) {
    Err(p) => ctx.violation("vertices-panic", cell("cell"), p),
    Ok((v, vm, vs)) => {
      let rv = ref_vertices(depth, h);
      for k in 0..4 {
        let b = vm.get(card(k)).copied();
        if b != Some(v[k]) || vs[k] != v[k] { ctx.violation("vertex-accessors-disagree", cell("cell").u("k", k as u64), format!("vertices={:?} vertex={:?} map={:?}", v[k], vs[k], b)); }
        let d = dist(v[k], rv[k]);
        ctx.worst_max("vertex_vs_reference_rad", d);
        if d > 1e-13 { ctx.violation("vertex-differs-from-reference", cell("cell").u("k", k as u64), format!("got {:?} ref {:?} d={:e}", v[k], rv[k], d)); }
      }
      // single-direction maps
      let mut cs = CardinalSet::new(); cs.set(card(2), true);
      let m1 = layer.vertices_map(h, cs);
      if m1.get(card(2)).copied() != Some(v[2]) || m1.get(card(0)).is_some() { ctx.violation("vertices_map-subset-wrong", cell("cell"), String::new()); }
    }
  }
  if heavy {
    // edge paths
    for &n in [1u32, 3, 8].iter() {
      for start in 0..4usize { for &cw in [false, true].iter() {
        ctx.eval();
        let pts = match catch(|| layer.path_along_cell_edge(h, &card(start), cw, n)) { Ok(p) => p, Err(p) => { ctx.violation("path_along_cell_edge-panics", cell("path").u("n", n as u64).u("start", start as u64).b("cw", cw), p); continue; } };
        if pts.len() != 4 * n as usize { ctx.violation("path_along_cell_edge-wrong-length", cell("path").u("n", n as u64).u("start", start as u64).b("cw", cw), format!("len {}", pts.len())); continue; }
        // documented cycle: clockwise = S->W->N->E, counter-clockwise = S->E->N->W
        let order: Vec<usize> = (0..4).map(|s| if cw { (start + 4 - s) % 4 } else { (start + s) % 4 }).collect();
        // expected border points; the property does not fix the enumeration order (only that the points lie on the border and,
        // nudged inwards, hash back to the cell): each returned point must match a distinct expected point; the first one is the start vertex
        let mut wants: Vec<(f64, f64)> = Vec::with_capacity(4 * n as usize);
        for side in 0..4 { for m in 0..n as usize {
          let (a, b) = (voff(order[side]), voff(order[(side + 1) % 4]));
          let t = m as f64 / n as f64;
          let (cx, cy) = cell_center_proj(depth, h);
          wants.push(ref_unproj((cx + (a.0 + (b.0 - a.0) * t) / ns).rem_euclid(8.0), cy + (a.1 + (b.1 - a.1) * t) / ns));
        }}
        let mut used = vec![false; wants.len()];
        for (gi, &got) in pts.iter().enumerate() {
          let mut best = (f64::INFINITY, 0usize);
          for (k, w) in wants.iter().enumerate() { if used[k] { continue; } let d = if got.0.is_finite() && got.1.is_finite() { dist(got, *w) } else { f64::INFINITY }; if d < best.0 { best = (d, k); } }
          if gi == 0 { best = (dist(got, wants[0]), 0); }
          used[best.1] = true;
          judge_border_point(ctx, layer, depth, h, got, wants[best.1], c, "path_along_cell_edge", n as u64 * 100 + start as u64 * 10 + cw as u64);
        }
      }}
    }
    // side paths
    for from in 0..4usize { for &to in [(from + 1) % 4, (from + 3) % 4].iter() { for &incl in [false, true].iter() {
      let n = 4u32;
      ctx.eval();
      let pts = match catch(|| layer.path_along_cell_side(h, &card(from), &card(to), incl, n)) { Ok(p) => p, Err(p) => { ctx.violation("path_along_cell_side-panics", cell("side").u("from", from as u64).u("to", to as u64), p); continue; } };
      if pts.len() != (n as usize + incl as usize) { ctx.violation("path_along_cell_side-wrong-length", cell("side").u("from", from as u64).u("to", to as u64).b("incl", incl), format!("len {}", pts.len())); continue; }
      for (m, &got) in pts.iter().enumerate() {
        let (a, b) = (voff(from), voff(to)); let t = m as f64 / n as f64; let (cx, cy) = cell_center_proj(depth, h);
        let want = ref_unproj((cx + (a.0 + (b.0 - a.0) * t) / ns).rem_euclid(8.0), cy + (a.1 + (b.1 - a.1) * t) / ns);
        judge_border_point(ctx, layer, depth, h, got, want, c, "path_along_cell_side", from as u64 * 10 + to as u64);
      }
    }}}
    // grids
    for &n in [1u16, 4].iter() {
      ctx.eval();
      let g = match catch(|| layer.grid(h, n)) { Ok(g) => g, Err(p) => { ctx.violation("grid-panics", cell("grid").u("n", n as u64), p); continue; } };
      let np = n as usize + 1;
      if g.len() != np * np { ctx.violation("grid-wrong-length", cell("grid").u("n", n as u64), format!("len {}", g.len())); continue; }
      // order-insensitive: every returned point must be one of the (n+1)^2 grid points, each used once
      let wants: Vec<(f64, f64)> = (0..np * np).map(|k| ref_sph_coo(depth, h, (k / np) as f64 / n as f64, (k % np) as f64 / n as f64)).collect();
      let mut used = vec![false; wants.len()];
      for &got in g.iter() {
        let mut best = (f64::INFINITY, 0usize);
        for (k, w) in wants.iter().enumerate() { if used[k] { continue; } let d = if got.0.is_finite() && got.1.is_finite() { dist(got, *w) } else { f64::INFINITY }; if d < best.0 { best = (d, k); } }
        used[best.1] = true;
        judge_border_point(ctx, layer, depth, h, got, wants[best.1], c, "grid", n as u64);
      }
    }
  }
  // the free-function wrappers nested::f(depth, ...) must agree bit for bit with the Layer methods
  if heavy {
    ctx.eval();
    let (ox, oy) = (0.25 + 0.5 * rng.f(), 0.25 + 0.5 * rng.f());
    let r = catch(|| {
      let mut bad: Vec<&'static str> = Vec::new();
      if nested::center(depth, h) != layer.center(h) { bad.push("center"); }
      if nested::vertices(depth, h) != layer.vertices(h) { bad.push("vertices"); }
      if nested::sph_coo(depth, h, ox, oy) != layer.sph_coo(h, ox, oy) { bad.push("sph_coo"); }
      if nested::hash_with_dxdy(depth, c.0, c.1) != layer.hash_with_dxdy(c.0, c.1) { bad.push("hash_with_dxdy"); }
      if nested::hash(depth, c.0, c.1) != layer.hash(c.0, c.1) { bad.push("hash"); }
      if nested::grid(depth, h, 3)[..] != layer.grid(h, 3)[..] { bad.push("grid"); }
      if nested::path_along_cell_edge(depth, h, &Cardinal::E, true, 3)[..] != layer.path_along_cell_edge(h, &Cardinal::E, true, 3)[..] { bad.push("path_along_cell_edge"); }
      if nested::path_along_cell_side(depth, h, &Cardinal::N, &Cardinal::W, true, 3)[..] != layer.path_along_cell_side(h, &Cardinal::N, &Cardinal::W, true, 3)[..] { bad.push("path_along_cell_side"); }
      if nested::n_hash(depth) != n_hash(depth) || layer.n_hash() != n_hash(depth) || layer.depth() != depth { bad.push("n_hash/depth"); }
      bad
    });
    match r { Ok(bad) => for b in bad { ctx.violation("free-function-wrapper-differs-from-Layer-method", cell("cell").s("fn", b), b.to_string()); }, Err(p) => ctx.violation("free-function-wrapper-panics", cell("cell"), p) }
  }
  let cls = cell_class(depth, h);
  if !cls.is_empty() { ctx.hard(&format!("cell:{}", cls), &[depth as u64, h]); if depth > 8 && ctx.samples.len() < 5 && h % 5 == 0 { ctx.sample(&cell("cell"), &format!("class={} centre={:?}", cls, c)); } } else { ctx.bump("plain-cells"); }
}

fn judge_border_point(ctx: &mut Ctx, layer: &'static Layer, depth: u8, h: u64, got: (f64, f64), want: (f64, f64), center: (f64, f64), what: &str, param: u64) {
  ctx.evals_n(2);
  let mk = || Case::new("cell").u("depth", depth as u64).u("h", h).s("what", what).u("param", param);
  if !(got.0.is_finite() && got.1.is_finite() && got.1.abs() <= PI / 2.0) { ctx.violation(&format!("{}-point-not-a-position", what), mk(), format!("{:?}", got)); return; }
  let d = dist(got, want);
  ctx.worst_max("border/grid_point_vs_reference_rad", d);
  if d > 1e-13 { ctx.violation(&format!("{}-point-differs-from-reference", what), mk(), format!("got {:?} want {:?} d={:e}", got, want, d)); return; }
  // nudged 1% toward the centre it must hash back to the cell
  let p = towards(got, center, 0.01);
  match catch(|| layer.hash(p.0, p.1)) {
    Ok(hh) => if hh != h { ctx.violation(&format!("{}-point-nudged-inwards-hashes-elsewhere", what), mk(), format!("point {:?} nudged {:?} -> {}", got, p, hh)); },
    Err(e) => ctx.violation(&format!("{}-nudged-point-hash-panics", what), mk(), e),
  }
}

pub fn judge_offset(ctx: &mut Ctx, layer: &'static Layer, depth: u8, h: u64, ox: f64, oy: f64) {
  let mk = || Case::new("offset").u("depth", depth as u64).u("h", h).f("ox", ox).f("oy", oy);
  ctx.evals_n(2);
  let p = match catch(|| layer.sph_coo(h, ox, oy)) { Ok(p) => p, Err(e) => { ctx.violation("sph_coo-panics-on-interior-offset", mk(), e); return; } };
  let rp = ref_sph_coo(depth, h, ox, oy);
  let d = dist(p, rp);
  ctx.worst_max("sph_coo_vs_reference_rad", d);
  if d > 1e-13 { ctx.violation("sph_coo-differs-from-reference", mk(), format!("got {:?} ref {:?} d={:e}", p, rp, d)); }
  match catch(|| layer.hash(p.0, p.1)) { Ok(hh) => if hh != h { ctx.violation("hash(sph_coo(h,dx,dy))-not-the-cell", mk(), format!("pos {:?} -> {}", p, hh)); }, Err(e) => ctx.violation("hash-panics", mk(), e) }
  judge_hwd(ctx, layer, depth, p.0, p.1, Some((h, ox, oy)));
}

/// hash_with_dxdy at a position; `expect` = (cell, dx, dy) when the position was built from interior offsets
pub fn judge_hwd(ctx: &mut Ctx, layer: &'static Layer, depth: u8, lon: f64, lat: f64, expect: Option<(u64, f64, f64)>) {
  let lc = if lon < 0.0 { "lon<0" } else if lon >= TWO_PI { "lon>=2pi" } else { "lon-std" };
  let cls = format!("{}/{}/{}", lc, if depth == 0 { "d0" } else { "d>0" }, point_class(lon.abs() % TWO_PI, lat));
  let mk = || Case::new("hwd").u("depth", depth as u64).f("lon", lon).f("lat", lat).s("cls", &cls);
  ctx.eval();
  let ns = nside(depth) as f64;
  let nv0 = ctx.n_violations + ctx.known_hits.values().map(|v| v.0).sum::<u64>();
  judge_hwd_inner(ctx, layer, depth, lon, lat, expect, ns, &mk, false);
  // hash_dxdy_v2 (public; the fallback of hash_with_dxdy on its rare branches) answers the same question: same rule
  if lat.abs() <= PI / 2.0 { let mk2 = || mk().b("v2", true); judge_hwd_inner(ctx, layer, depth, lon, lat, expect, ns, &mk2, true); }
  let nv1 = ctx.n_violations + ctx.known_hits.values().map(|v| v.0).sum::<u64>();
  if nv1 > nv0 { ctx.bump(&format!("hwd-failing-calls[{}]", cls)); }
}
fn judge_hwd_inner(ctx: &mut Ctx, layer: &'static Layer, depth: u8, lon: f64, lat: f64, expect: Option<(u64, f64, f64)>, ns: f64, mk: &dyn Fn() -> Case, v2: bool) {
  let (h, dx, dy) = match catch(|| if v2 { layer.hash_dxdy_v2(lon, lat) } else { layer.hash_with_dxdy(lon, lat) }) { Ok(v) => v, Err(e) => { ctx.violation("hash_with_dxdy-panics-on-valid-position", mk(), e); return; } };
  if h >= n_hash(depth) { ctx.violation("hash_with_dxdy-cell-out-of-range", mk(), format!("h={}", h)); return; }
  let tol = plane_tol(lon) + 4e-16;
  let (ok, ex) = contains(depth, h, lon, lat, tol);
  if !ok { ctx.violation("hash_with_dxdy-cell-does-not-contain-position", mk(), format!("h={} dx={} dy={} excess={:e} plane = {:e} cells", h, dx, dy, ex, ex * ns)); return; }
  if !(dx.is_finite() && dy.is_finite()) { ctx.violation("hash_with_dxdy-offsets-not-finite", mk(), format!("h={} dx={} dy={}", h, dx, dy)); return; }
  // "in [0,1] up to rounding": the in-base-cell coordinate (magnitude up to nside) carries a few ulps, i.e. ~nside * 2^-50 cell
  let rt = 1e-9 + ns * 4.0 * f64::EPSILON;
  if dx < -rt || dx > 1.0 + rt || dy < -rt || dy > 1.0 + rt { ctx.violation("hash_with_dxdy-offsets-outside-[0,1]", mk(), format!("h={} dx={} dy={}", h, dx, dy)); return; }
  // position recovered from (h, dx, dy) through the reference geometry
  ctx.eval();
  let rp = ref_sph_coo(depth, h, dx.max(0.0).min(1.0), dy.max(0.0).min(1.0));
  let d = dist(rp, (lon, lat));
  if lon.abs() < 50.0 { ctx.worst_max("position_recovered_from_offsets_rad", d); }
  if d > far_tol(1e-13, lon) { ctx.violation("position-not-recovered-from-offsets", mk(), format!("h={} dx={} dy={} -> {:?} d={:e}", h, dx, dy, rp, d)); }
  // "sph_coo inverts it whenever both offsets are below 1": including offsets that are negative by a rounding error
  if dx < 1.0 && dy < 1.0 {
    ctx.eval();
    match catch(|| layer.sph_coo(h, dx, dy)) {
      Err(e) => ctx.violation("sph_coo-panics-on-returned-offsets", mk(), e),
      Ok(p) => { let d = dist(p, (lon, lat)); if lon.abs() < 50.0 { ctx.worst_max("sph_coo(hash_with_dxdy)_rad", d); } if d > far_tol(1e-13, lon) { ctx.violation("sph_coo-does-not-invert-hash_with_dxdy", mk(), format!("h={} dx={} dy={} -> {:?} d={:e}", h, dx, dy, p, d)); } }
    }
  }
  // equality with hash unless on a border
  // "unless the position lies on a cell border": within rounding of the border = 1e-9 cell + a few ulps of a plane coordinate (<= 8)
  let interior = ex < -(1e-9 / ns + 16.0 * f64::EPSILON);
  if interior {
    ctx.eval();
    match catch(|| layer.hash(lon, lat)) { Ok(hh) => if hh != h { ctx.violation("hash_with_dxdy-cell-differs-from-hash-away-from-borders", mk(), format!("hwd={} hash={} excess={:e} cells", h, hh, ex * ns)); }, Err(_) => {} }
  } else { ctx.hard("hwd:within-1e-9-cell-of-border", &[depth as u64, lon.to_bits(), lat.to_bits()]); }
  if let Some((eh, ox, oy)) = expect {
    ctx.eval();
    let t = 1e-6 + 4e-16 * ns;
    if h != eh || (dx - ox).abs() > t || (dy - oy).abs() > t { ctx.violation("hash_with_dxdy-does-not-return-the-offsets-the-position-was-built-from", mk().u("h", eh).f("ox", ox).f("oy", oy), format!("got h={} dx={} dy={}", h, dx, dy)); }
  } else {
    let cls = point_class(lon, lat);
    if !cls.is_empty() { ctx.hard(&format!("hwd:{}", cls), &[depth as u64, lon.to_bits(), lat.to_bits()]); if ctx.samples.len() < 10 && ctx.evals % 17 == 0 { ctx.sample(&mk(), &format!("h={} dx={} dy={} class={}", h, dx, dy, cls)); } }
  }
}

fn rejections(ctx: &mut Ctx, layer: &'static Layer, depth: u8) {
  let mut rng = Rng::new(ctx.seed, 31_000 + depth as u64);
  for &bad in bad_cell_numbers(&mut rng, depth).iter() {
    let mut chk = |name: &str, r: bool| { ctx.eval(); if r { ctx.violation(&format!("{}-accepts-cell-number>=n_hash", name), Case::new("bad").u("depth", depth as u64).u("h", bad).s("fn", name), String::new()); } else { ctx.bump("rejections-observed"); ctx.hard("rejected-cell-number", &[depth as u64, bad, name.len() as u64]); } };
    chk("center", catch(|| layer.center(bad)).is_ok());
    chk("nested::center", catch(|| nested::center(depth, bad)).is_ok());
    chk("center_of_projected_cell", catch(|| layer.center_of_projected_cell(bad)).is_ok());
    chk("vertices", catch(|| layer.vertices(bad)).is_ok());
    chk("nested::vertices", catch(|| nested::vertices(depth, bad)).is_ok());
    // every accessor with every shape of its other arguments, including the degenerate ones (empty set, zero segments / points):
    // the cell number must be checked whatever else is asked
    for k in 0..4 { chk("vertex", catch(|| layer.vertex(bad, card(k))).is_ok()); }
    chk("vertices_map", catch(|| layer.vertices_map(bad, CardinalSet::all())).is_ok());
    { let mut one = CardinalSet::new(); one.set(card(1), true); chk("vertices_map(one)", catch(|| layer.vertices_map(bad, one)).is_ok()); }
    for &(dx, dy) in [(0.5, 0.5), (0.0, 0.0), (0.999, 0.0), (0.25, 0.75)].iter() { chk("sph_coo", catch(|| layer.sph_coo(bad, dx, dy)).is_ok()); }
    chk("nested::sph_coo", catch(|| nested::sph_coo(depth, bad, 0.5, 0.5)).is_ok());
    chk("neighbours", catch(|| layer.neighbours(bad, false)).is_ok());
    chk("neighbours(include_center)", catch(|| layer.neighbours(bad, true)).is_ok());
    for &n in [1u16, 2, 3].iter() { chk("grid", catch(|| layer.grid(bad, n)).is_ok()); }
    chk("nested::grid", catch(|| nested::grid(depth, bad, 2)).is_ok());
    for k in 0..4 { for &cw in [false, true].iter() { for &n in [1u32, 2].iter() { chk("path_along_cell_edge", catch(|| layer.path_along_cell_edge(bad, &card(k), cw, n)).is_ok()); } } }
    chk("nested::path_along_cell_edge", catch(|| nested::path_along_cell_edge(depth, bad, &Cardinal::S, false, 2)).is_ok());
    for &(a, b) in [(0usize, 1usize), (1, 2), (2, 3), (3, 0), (0, 3)].iter() { for &inc in [false, true].iter() { for &n in [0u32, 1, 2].iter() {
      chk(if n == 0 { "path_along_cell_side(0 segments)" } else { "path_along_cell_side" }, catch(|| layer.path_along_cell_side(bad, &card(a), &card(b), inc, n)).is_ok()); } } }
    chk("nested::path_along_cell_side", catch(|| nested::path_along_cell_side(depth, bad, &Cardinal::S, &Cardinal::E, false, 2)).is_ok());
    let _ = MainWind::N;
  }
}

fn replay(ctx: &mut Ctx, c: &Case) {
  let depth = c.gu("depth") as u8; let layer = nested::get_or_create(depth);
  match c.mon() {
    "cell" | "path" | "side" | "grid" => { let mut rng = Rng::new(ctx.seed, 1); judge_cell(ctx, layer, depth, c.gu("h"), &mut rng, true); }
    "offset" => judge_offset(ctx, layer, depth, c.gu("h"), c.gf("ox"), c.gf("oy")),
    "hwd" => { let e = if c.get("ox").is_some() { Some((c.gu("h"), c.gf("ox"), c.gf("oy"))) } else { None }; judge_hwd(ctx, layer, depth, c.gf("lon"), c.gf("lat"), e); }
    "bad" => rejections(ctx, layer, depth),
    m => ctx.inconclusive(&format!("unknown replay monitor {}", m)),
  }
}
