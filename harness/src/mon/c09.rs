//! C09 — every BMOC handed to the user is well formed and its views agree.
//! Operator *histories* over the outputs of the coverage queries and of both builders; every intermediate and final
//! BMOC goes through the invariant walker (bm::walk).
use crate::bm::*;
use crate::mon::{cone, ell, poly};
use crate::util::*;
use crate::Monitor;
use cdshealpix::nested;
use cdshealpix::nested::bmoc::{BMOCBuilderFixedDepth, BMOCBuilderUnsafe, BMOC};
use std::collections::BTreeMap;

pub fn monitor() -> Monitor {
  Monitor { id: "C09",
    rule: "programs: 2-4 initial BMOCs drawn from the producers {cone_coverage_approx, cone_coverage_approx_custom, elliptical_cone_coverage(_custom), polygon_coverage (both modes), BMOCBuilderFixedDepth on random push sequences, BMOCBuilderUnsafe::to_bmoc_packing / to_lower_depth_bmoc(_packing) on random trees} (generators of C05/C13/C12/C15, all depths 0..29), then 1-6 operators drawn from {not, and, or, xor} applied to values of the pool, results re-entering the pool. Every BMOC (initial, intermediate, final) is walked: raw entries strictly increasing, sentinel present, depth <= depth_max, cell number < 12*4^depth, ranges disjoint and ordered, into_iter/from_raw_value = decoded entries, deep_size, to_ranges disjoint & non-adjacent & equal to the merged entries, and (deep size <= 2e5) flat_iter = to_flat_array = flat_iter_cell hashes, sorted, duplicate-free, size_hint, flags/raw values of flat cells equal to the owning entry. Non-trivial = walked BMOC with mixed flags or mixed depths, or produced by an operator whose operands have different depth_max.",
    assumptions: &["independent decoding of the raw entries (bm::cells_of)"],
    run, replay }
}

fn produce(rng: &mut Rng, ctx: &mut Ctx) -> Option<(BMOC, String)> {
  let r = match rng.below(8) {
    0 | 1 => { let c = cone::gen_cone(rng, true); let (d, dd, lon, lat, r) = (c.gu("depth") as u8, c.gu("dd") as u8, c.gf("lon"), c.gf("lat"), c.gf("r")); (catch(|| if dd == 0 { nested::cone_coverage_approx(d, lon, lat, r) } else { nested::cone_coverage_approx_custom(d, dd, lon, lat, r) }), format!("cone[{}]", c.to_line())) }
    2 => { let c = ell::gen_ell(rng); let (d, dd) = (c.gu("depth") as u8, c.gu("dd") as u8); let (lon, lat, a, b, pa) = (c.gf("lon"), c.gf("lat"), c.gf("a"), c.gf("b"), c.gf("pa")); (catch(|| if dd == 0 { nested::elliptical_cone_coverage(d, lon, lat, a, b, pa) } else { nested::elliptical_cone_coverage_custom(d, dd, lon, lat, a, b, pa) }), format!("ellipse[{}]", c.to_line())) }
    3 => { let c = loop { if let Some(c) = poly::gen_poly(rng) { break c; } }; let d = c.gu("depth") as u8; let p: Vec<(f64, f64)> = c.gfl("vl").into_iter().zip(c.gfl("vb").into_iter()).collect(); let exact = rng.coin(); (catch(|| nested::polygon_coverage(d, &p, exact)), format!("polygon[exact={} {}]", exact, c.to_line())) }
    4 | 5 => {
      let depth = if rng.below(6) == 0 { 29 } else { rng.below(8) as u8 }; let nh = 12u64 << (2 * depth); let cap = 1 + rng.below(30) as usize; let n = 1 + rng.below(150); let flag = rng.coin();
      let mut cur = rng.below(nh); let style = rng.below(3);
      let seq: Vec<u64> = (0..n).map(|_| { match style { 0 => rng.below(nh), 1 => { cur = (cur + 1 + (rng.below(6) == 0) as u64 * rng.below(9)) % nh; cur } _ => rng.below(nh.min(40)) } }).collect();
      (catch(|| { let mut b = BMOCBuilderFixedDepth::with_capacity(depth, flag, cap); for &h in seq.iter() { b.push(h); } b.to_bmoc().expect("non-empty") }), format!("fixed-depth-builder[depth={} cap={} flag={} n={}]", depth, cap, flag, n))
    }
    _ => {
      let dm = 1 + rng.below(5) as u8; let nb = 1 + rng.below(12); let bases: Vec<u64> = (0..nb).collect(); let wp = rng.coin(); let mut c = Vec::new(); gen_tree(rng, dm.min(4), &bases, wp, &mut c);
      let mode = rng.below(4); let nd = rng.below(dm as u64) as u8;
      if mode == 1 { pack_model(&mut c); }
      // mode 3: cells pushed in random order, then to_bmoc_from_unordered
      let mut order: Vec<usize> = (0..c.len()).collect(); if mode == 3 { for i in (1..order.len()).rev() { let j = rng.below(i as u64 + 1) as usize; order.swap(i, j); } }
      (catch(|| { let mut b = BMOCBuilderUnsafe::new(dm, 8); for &k in &order { let (d, h, f) = c[k]; b.push(d, h, f); } match mode { 0 => b.to_bmoc_packing(), 1 => b.to_lower_depth_bmoc(nd), 2 => b.to_lower_depth_bmoc_packing(nd), _ => b.to_bmoc_from_unordered() } }), format!("unsafe-builder[mode={} dm={} nd={} {}]", mode, dm, nd, cells_to_str(&c)))
    }
  };
  match r.0 { Ok(b) => Some((b, r.1)), Err(_) => { ctx.info("producer-panicked(judged-by-its-own-property)"); None } }
}

pub fn judge_program(ctx: &mut Ctx, s: u64) {
  let mut rng = Rng::new(s, 9);
  let case = Case::new("prog").u("s", s);
  precall(&case); // a process death inside the program is attributed to it
  let mut pool: Vec<(BMOC, String)> = Vec::new();
  let n0 = 2 + rng.below(3);
  while (pool.len() as u64) < n0 { if let Some(x) = produce(&mut rng, ctx) { pool.push(x); } }
  let check = |ctx: &mut Ctx, b: &BMOC, what: &str, case: &Case, mixed_dm: bool| -> bool {
    ctx.eval();
    match walk(b, 200_000) {
      Ok(st) => { ctx.bump("bmocs-walked"); if st.flat_checked { ctx.bump("bmocs-walked-with-flat-views"); }
        if st.mixed_flags || st.mixed_depths || mixed_dm { ctx.hard("bmoc:mixed-flags/depths/depth_max", &[case.gu("s"), what.len() as u64, st.n_cells as u64, b.entries.first().copied().unwrap_or(0), b.entries.last().copied().unwrap_or(0)]); } else { ctx.bump("plain-bmocs"); }
        true }
      Err(e) => { let prod = what.split('[').next().unwrap_or("?").to_string(); ctx.violation(&format!("malformed-bmoc-from-{}", prod), case.clone().s("what", &what.chars().take(300).collect::<String>()), e); false }
    }
  };
  for (b, what) in pool.iter() { if !check(ctx, b, what, &case, false) { return; } }
  let n_ops = 1 + rng.below(6);
  for step in 0..n_ops {
    let i = rng.below(pool.len() as u64) as usize; let j = rng.below(pool.len() as u64) as usize;
    let op = rng.below(4);
    // keep the cost bounded: skip binary operators on huge operands
    if pool[i].0.entries.len() + pool[j].0.entries.len() > 400_000 { continue; }
    let name = ["not", "and", "or", "xor"][op as usize];
    let r = { let (a, b) = (&pool[i].0, &pool[j].0); catch(|| match op { 0 => a.not(), 1 => a.and(b), 2 => a.or(b), _ => a.xor(b) }) };
    let what = format!("{}[step {} of: {} ;; {}]", name, step, pool[i].1.chars().take(120).collect::<String>(), pool[j].1.chars().take(120).collect::<String>());
    match r {
      Err(p) => { ctx.eval(); ctx.violation(&format!("operator-{}-panics-in-a-history", name), case.clone().s("what", &what.chars().take(300).collect::<String>()), p); return; }
      Ok(res) => { let mixed = op != 0 && pool[i].0.get_depth_max() != pool[j].0.get_depth_max(); if !check(ctx, &res, &what, &case, mixed) { return; } if ctx.samples.len() < 6 && step >= 2 && s % 37 == 0 { ctx.sample(&case, &format!("{} -> {} entries, depth_max {}", what.chars().take(200).collect::<String>(), res.entries.len(), res.get_depth_max())); } pool.push((res, what)); }
    }
  }
  ctx.bump("programs");
  postcall();
}

fn run(ctx: &mut Ctx, extra: &mut BTreeMap<String, String>) {
  let seed = ctx.seed;
  let small = ctx.pass != "release";
  let n = if ctx.thorough { if small { 3000 } else { 1_500_000 } } else if small { 300 } else { 12_000 };
  extra.insert("programs".into(), format!("{}", n));
  let _ = cone::thresholds();
  run_sharded(ctx, 16, |c, k| {
    let mut rng = Rng::new(seed, 950 + k as u64);
    for _ in 0..n / 16 { let s = rng.next() >> 1; judge_program(c, s); }
    // thorough, release: the lazy flat views walked PAST 2^32 elements inside one entry 17 levels coarser than depth_max (a counter or
    // a bound held in 32 bits would only show there): element number 2^32 + small of flat_iter() and flat_iter_cell()
    if c.thorough && !small && (k == 3 || k == 11) {
      let dm = if k == 3 { 20u8 } else { 29 }; let d = dm - 17; let h = 5u64 << (2 * d); let first = h << 34;
      let cells = vec![(d, h, true), (dm, ((h + 1) << 34) + 7, false)];
      let b = to_bmoc(dm, &cells);
      let case = Case::new("long-walk").u("dm", dm as u64).u("d", d as u64).u("h", h);
      c.evals_n(2);
      let n0: usize = (1usize << 32) + 5;
      match catch(|| { let mut it = b.flat_iter(); (it.nth(n0), it.next()) }) {
        Err(p) => c.violation("malformed-bmoc-from-flat_iter-long-walk", case.clone(), p),
        Ok((x, y)) => if x != Some(first + n0 as u64) || y != Some(first + n0 as u64 + 1) { c.violation("malformed-bmoc-from-flat_iter-long-walk", case.clone(), format!("flat_iter element #{} = {:?} (next {:?}), expected {}", n0, x, y, first + n0 as u64)); }
      }
      match catch(|| { let mut it = b.flat_iter_cell(); it.nth(n0).map(|cl| (cl.hash, cl.is_full, cl.depth)) }) {
        Err(p) => c.violation("malformed-bmoc-from-flat_iter_cell-long-walk", case.clone(), p),
        Ok(x) => if x != Some((first + n0 as u64, true, dm)) { c.violation("malformed-bmoc-from-flat_iter_cell-long-walk", case.clone(), format!("flat_iter_cell element #{} = {:?}, expected hash {} full depth {}", n0, x, first + n0 as u64, dm)); }
      }
      c.hard("lazy-views-walked-past-2^32-elements-of-one-entry", &[dm as u64]);
    }
  });
}

fn replay(ctx: &mut Ctx, c: &Case) { judge_program(ctx, c.gu("s")); }
