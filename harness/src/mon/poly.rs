//! C12 — polygon coverage keeps the vertex cells, is tight, flags honestly; point-in-polygon predicate.
use crate::bm::*;
use crate::refm::*;
use crate::util::*;
use crate::Monitor;
use cdshealpix::nested;
use cdshealpix::sph_geom::coo3d::{Coo3D, LonLat};
use cdshealpix::sph_geom::Polygon;
use std::collections::BTreeMap;
use std::f64::consts::PI;

pub fn monitor() -> Monitor {
  Monitor { id: "C12",
    rule: "polygons: 3..9 vertices on sorted bearings (gaps in [0.05, 0.95 pi]) around a centre at radius R (convex, inscribed in a small circle) or R x U(0.3,1) (star-shaped), either winding; R drawn per decade from 1e-10 rad to 0.79 rad, query depth matched so that R/cell is in [0.02, 40]; centres uniform, near meridians k.pi/4 (incl. lon ~ 0), near the transition latitude, 1 in 6 inside a polar cap astride lon = 0 or another seam meridian, 1 in 12 a longitude/latitude box (meridian edges), 1 in 8 with a vertex exactly on a special point of the grid (centre / vertex of a cell of level 0..2), never within R + 0.02 rad of a pole; both exact_solution values. Oracles: no panic / abnormal exit, well formed, every vertex's cell covered, convex & full => 4 vertices + centre inside (half-space margin >= -1e-12), R < 0.3 => cell centres within r + 2 x the largest centre-to-vertex distance of the depth of EVERY containing cone tried (the generation circle and, per edge, a cone of radius < 0.3 centred up to 0.28 rad on the inner side of the edge, i.e. nearly the edge's half-space), Polygon::contains == half-space oracle for points with |margin| > 1e-12 (uniform on the sphere, within 1.5 R, and on the meridian of every vertex +- 0..3 ulps). Interior witnesses missed are information only. Non-trivial = polygon crossing lon = 0, a meridian k.pi/2 or the transition latitude, clockwise winding, R below one cell, or R < 1e-6 rad.",
    assumptions: &["half-space oracle for convex polygons in a gnomonic chart computed from coordinate differences (refm::convex_margin_acc; relative accuracy ~1e-15 at every polygon size)", "Layer::hash (C01) locates vertices"],
    run, replay }
}

pub fn gen_poly(rng: &mut Rng) -> Option<Case> {
  let dec = rng.below(10) as i32; // 1e-10 .. 1e0
  let mut rmax = (10f64.powf(-10.0 + dec as f64 + rng.f())).min(0.79);
  // depth such that R/cell in [0.02, 40]
  let mut cands = Vec::new();
  for d in 0..30u8 { let q = rmax * nside(d) as f64; if q >= 0.02 && q <= 40.0 { cands.push(d); } }
  if cands.is_empty() { return None; }
  let mut depth = *rng.pick(&cands);
  let convex = rng.coin();
  let (mut lon, mut lat) = rng.sphere();
  if rng.below(4) == 0 { lon = (rng.below(9) as f64) * PI / 4.0 + (rng.f() - 0.5) * 2.0 * rmax; }
  if rng.below(6) == 0 { lat = trans_lat() * if rng.coin() { 1.0 } else { -1.0 } + (rng.f() - 0.5) * 2.0 * rmax; }
  // edges crossing lon = 0 (and the other seam meridians) inside a polar cap: the branch of the exact mode's special-point search (R21)
  if rng.below(6) == 0 { // fine cells (R >= 8 cells) make a misplaced special point visible as a far cell
    let fine: Vec<u8> = cands.iter().cloned().filter(|&d| rmax * nside(d) as f64 >= 8.0).collect(); if !fine.is_empty() && rng.below(4) != 0 { depth = *rng.pick(&fine); }
    lon = (if rng.coin() { 0.0 } else { rng.below(4) as f64 * PI / 2.0 }) + (rng.f() - 0.5) * 2.0 * rmax; let lo = trans_lat() + 0.01; let hi = PI / 2.0 - 0.03 - rmax; if hi <= lo { return None; } lat = (lo + (hi - lo) * rng.f()) * if rng.coin() { 1.0 } else { -1.0 }; }
  lon = lon.rem_euclid(TWO_PI);
  // polygons next to a pole that do not reach it (one in 8): the circumscribed circle passes at g.R from the pole, g from 1e-4 to 1,
  // sizes from 1e-9 rad up; elsewhere a margin of 0.02 rad is kept around the poles
  let near_pole = rng.below(8) == 0;
  if near_pole { let g = rng.log_uniform(1e-4, 1.0); lat = (PI / 2.0 - rmax * (1.0 + g)) * if rng.coin() { 1.0 } else { -1.0 }; if !(lat.abs() + rmax < PI / 2.0) || rmax > 0.75 { return None; } }
  else if lat.abs() + rmax > PI / 2.0 - 0.02 { return None; }
  let nv = 3 + rng.below(7) as usize;
  let mut bear: Vec<f64> = (0..nv).map(|_| rng.f() * TWO_PI).collect();
  // one polygon in 10 has a vertex that is EXACTLY a special point of the grid (centre or vertex of a cell of level 0..2, as the crate
  // returns them: (k.pi/2, 0), (k.pi/4, +-asin 2/3), ...): the centre is moved to distance R from it and the point becomes a vertex
  let mut special: Option<((f64, f64), f64)> = None;
  if rng.below(8) == 0 {
    // level 0 half of the time (the 12 base-cell centres and their corners are the most special points), fine cells preferred
    let k = match rng.below(10) { 0..=4 => 0u8, 5..=7 => 1, _ => 2 }; let h = rng.below(n_hash(k)); let ly = nested::get_or_create(k);
    let fine: Vec<u8> = cands.iter().cloned().filter(|&d| rmax * nside(d) as f64 >= 8.0).collect(); if !fine.is_empty() && rng.below(4) != 0 { depth = *rng.pick(&fine); }
    let sp = if rng.coin() { ly.center(h) } else { ly.vertices(h)[rng.below(4) as usize] };
    if sp.1.abs() + 2.0 * rmax < PI / 2.0 - 0.02 {
      let c = point_at(sp.0, sp.1, rmax, rng.f() * TWO_PI);
      lon = c.0.rem_euclid(TWO_PI); lat = c.1;
      let mut dl = sp.0 - lon; if dl.abs() > PI { dl = (dl + PI).rem_euclid(TWO_PI) - PI; }
      let east = sp.1.cos() * dl.sin(); let north = lat.cos() * sp.1.sin() - lat.sin() * sp.1.cos() * dl.cos();
      let th = north.atan2(east).rem_euclid(TWO_PI);
      // half of the time the vertex is the special point itself, otherwise a point 1e-15 .. 1e-6 rad away from it
      let spv = if rng.coin() { sp } else { point_at(sp.0, sp.1, rng.log_uniform(1e-15, 1e-6).min(1e-3 * rmax), rng.f() * TWO_PI) };
      bear[0] = th; special = Some((spv, th));
    }
  }
  bear.sort_by(|a, b| a.partial_cmp(b).unwrap());
  for i in 0..nv { let g = (bear[(i + 1) % nv] - bear[i]).rem_euclid(TWO_PI); if g > PI * 0.95 || g < 0.05 { return None; } }
  let mut vl = Vec::new(); let mut vb = Vec::new();
  let mut pts: Vec<(f64, f64)> = bear.iter().map(|&b| match special { Some((sp, th)) if th == b => (sp.0.rem_euclid(TWO_PI), sp.1), _ => point_at(lon, lat, if convex { rmax } else { rmax * (0.3 + 0.7 * rng.f()) }, b) }).collect();
  // one polygon in 12 is a longitude / latitude box: two edges exactly along meridians (consecutive vertices with the same longitude),
  // two edges between vertices of equal latitude
  let mut convex = convex; let mut on_seam = false; let mut near_meridian_edge = false; let mut cell_polygon = false; let mut pole_edge = false; let mut apex_vertex = false; let mut equator_edge = false;
  if rng.below(12) == 0 && special.is_none() && lat.abs() + 1.5 * rmax < PI / 2.0 {
    let (w, h) = (rmax * rng.range(0.2, 0.7) / lat.cos().max(1e-3), rmax * rng.range(0.2, 0.7));
    pts = vec![(lon - w, lat - h), (lon + w, lat - h), (lon + w, lat + h), (lon - w, lat + h)];
    convex = true;
    // one box in three has its west side EXACTLY on a meridian k.pi/2 (in a polar cap: the great circle of a base-cell border)
    if rng.below(3) == 0 { let l0 = ((lon - w) / (PI / 2.0)).round() * (PI / 2.0); pts = vec![(l0, lat - h), (l0 + 2.0 * w, lat - h), (l0 + 2.0 * w, lat + h), (l0, lat + h)]; lon = l0 + w; on_seam = true; }
  }
  // one polygon in 16: a triangle with an edge exactly on a meridian k.pi/2 (two vertices of longitude k.pi/2), half of them in a polar cap
  if rng.below(16) == 0 && special.is_none() && !near_pole {
    let l0 = (lon / (PI / 2.0)).round() * (PI / 2.0);
    let b0 = if rng.coin() { lat } else { (trans_lat() + 0.02 + rng.f() * (PI / 2.0 - trans_lat() - 0.06 - 2.0 * rmax).max(0.0)) * if rng.coin() { 1.0 } else { -1.0 } };
    let (h1, h2, w) = (rmax * rng.range(0.2, 0.9), rmax * rng.range(0.2, 0.9), rmax * rng.range(0.2, 0.9) / b0.cos().max(1e-3) * if rng.coin() { 1.0 } else { -1.0 });
    if b0.abs() + 1.5 * rmax < PI / 2.0 - 0.02 {
      pts = vec![(l0, b0 - h1), (l0 + w, b0 + (rng.f() - 0.5) * h1.min(h2)), (l0, b0 + h2)]; if w < 0.0 { pts.reverse(); }
      lon = l0 + w / 3.0; lat = b0; convex = true; on_seam = true;
    }
  }
  // one polygon in 16: a triangle with an edge ALMOST along a meridian (longitudes of its ends 1e-13 .. 1e-8 rad apart): the side-of-plane
  // test of a point of that meridian is ill-conditioned far beyond rounding distance from the edge
  if rng.below(16) == 0 && special.is_none() && !near_pole && !on_seam && lat.abs() + 2.5 * rmax < PI / 2.0 - 0.02 {
    let sgn = if rng.coin() { 1.0 } else { -1.0 }; let dlon = rng.log_uniform(1e-13, 1e-8) * if rng.coin() { 1.0 } else { -1.0 };
    let w = rmax * rng.range(0.3, 1.0) / lat.cos().max(1e-3) * if rng.coin() { 1.0 } else { -1.0 }; let h = rmax * rng.range(0.3, 1.0);
    pts = vec![(lon - w, lat - sgn * h), (lon, lat), (lon + dlon, lat - sgn * 2.0 * h)];
    // counter-clockwise order is not required (either winding), but the centre of the generation circle must be inside the circle of the vertices
    lat -= sgn * h; lon -= w / 3.0; convex = true; near_meridian_edge = true;
  }
  // one polygon in 16: a convex triangle with an EDGE passing at g ~ 1e-13 .. 1e-8 rad from a pole (the pole stays outside): its ends U, W have
  // longitudes pi - eps apart and are both 0.05 .. 0.25 rad from the pole, so the edge is almost along a meridian at both ends although it is
  // not a quasi-meridian edge; U is sometimes put on a meridian k.pi/4 (cell corners share its longitude bit for bit)
  if rng.below(16) == 0 && special.is_none() && !on_seam && !near_meridian_edge {
    let sgn = if rng.coin() { 1.0 } else { -1.0 };
    let l0 = if rng.coin() { (rng.below(8) as f64) * PI / 4.0 } else { rng.f() * TWO_PI };
    let (cu, cw, cx) = (rng.range(0.05, 0.25), rng.range(0.05, 0.25), rng.range(0.1, 0.28));
    let eps = rng.log_uniform(1e-13, 1e-8);
    pts = vec![(l0, sgn * (PI / 2.0 - cu)), (l0 + rng.range(1.0, 2.2), sgn * (PI / 2.0 - cx)), (l0 + PI - eps, sgn * (PI / 2.0 - cw))];
    if sgn < 0.0 { pts.reverse(); }
    // generation circle: centred on the normalised sum of the vertices
    let sv = pts.iter().fold([0.0; 3], |a, q| { let v = v3(*q); [a[0] + v[0], a[1] + v[1], a[2] + v[2]] }); let nn = norm(sv);
    lon = sv[1].atan2(sv[0]).rem_euclid(TWO_PI); lat = (sv[2] / nn).asin();
    rmax = pts.iter().map(|q| dist(*q, (lon, lat))).fold(0.0, f64::max);
    let fine: Vec<u8> = (0..30u8).filter(|&d| { let q = rmax * nside(d) as f64; q >= 2.0 && q <= 40.0 }).collect(); if !fine.is_empty() { depth = *rng.pick(&fine); }
    convex = true; pole_edge = true;
  }
  // one polygon in 16: a convex triangle one of whose vertices is EXACTLY (or within 0..8 ulps of) the apex of the great circle of an edge
  // leaving it: V0 = (l0, b), V1 = (l0 -+ D, atan(tan b . cos D)), l0 in {0, k.pi/2, random} (with l0 = 0 the tangent of the edge at V0 is exactly
  // horizontal: the 'which half of the arc' decision sits on an exact zero)
  if rng.below(16) == 0 && special.is_none() && !on_seam && !near_meridian_edge && !pole_edge {
    let l0 = match rng.below(3) { 0 => 0.0, 1 => (rng.below(4) as f64) * PI / 2.0, _ => rng.f() * TWO_PI };
    let b = rng.range(0.05, 1.2) * if rng.coin() { 1.0 } else { -1.0 };
    let dd = rng.range(0.05, 0.28) * if rng.coin() { 1.0 } else { -1.0 };
    let lat1 = crate::util::nudge((b.tan() * dd.cos()).atan(), rng.below(17) as i64 - 8 * (rng.below(2) as i64));
    let third = (l0 + dd * rng.range(0.1, 0.9), b - b.signum() * rng.range(0.08, 0.25));
    pts = vec![(l0, b), (l0 + dd, lat1), third];
    let sv = pts.iter().fold([0.0; 3], |a, q| { let v = v3(*q); [a[0] + v[0], a[1] + v[1], a[2] + v[2]] }); let nn = norm(sv);
    lon = sv[1].atan2(sv[0]).rem_euclid(TWO_PI); lat = (sv[2] / nn).asin();
    rmax = pts.iter().map(|q| dist(*q, (lon, lat))).fold(0.0, f64::max);
    let fine: Vec<u8> = (0..30u8).filter(|&d| { let q = rmax * nside(d) as f64; q >= 2.0 && q <= 40.0 }).collect(); if !fine.is_empty() { depth = *rng.pick(&fine); }
    convex = true; apex_vertex = true;
  }
  // one polygon in 24: a convex triangle with an edge exactly ON the equator (two vertices of latitude 0: the normal of the edge is (0, 0, nz),
  // the apex direction is (0, 0)) or exactly SYMMETRIC about it (latitudes b and -b: the great circle's apex is as far north as south)
  if rng.below(24) == 0 && special.is_none() && !on_seam && !near_meridian_edge && !pole_edge && !apex_vertex {
    let l0 = match rng.below(3) { 0 => 0.0, 1 => (rng.below(8) as f64) * PI / 4.0, _ => rng.f() * TWO_PI };
    let dd = rng.range(0.05, 0.28) * if rng.coin() { 1.0 } else { -1.0 }; let hgt = rng.range(0.03, 0.25) * if rng.coin() { 1.0 } else { -1.0 };
    pts = if rng.coin() { vec![(l0, 0.0), (l0 + dd, if rng.coin() { 0.0 } else { -0.0 }), (l0 + dd * rng.range(0.1, 0.9), hgt)] }
          else { let b = rng.range(0.01, 0.12); vec![(l0, b), (l0 + dd, -b), (l0 + dd * rng.range(0.3, 0.7) + hgt.abs(), hgt * 0.3)] };
    let sv = pts.iter().fold([0.0; 3], |a, q| { let v = v3(*q); [a[0] + v[0], a[1] + v[1], a[2] + v[2]] }); let nn = norm(sv);
    lon = sv[1].atan2(sv[0]).rem_euclid(TWO_PI); lat = (sv[2] / nn).asin();
    rmax = pts.iter().map(|q| dist(*q, (lon, lat))).fold(0.0, f64::max);
    let fine: Vec<u8> = (0..30u8).filter(|&d| { let q = rmax * nside(d) as f64; q >= 2.0 && q <= 40.0 }).collect(); if !fine.is_empty() { depth = *rng.pick(&fine); }
    // (the second shape is a triangle whose convexity depends on the draw: the judge's convex-only rules are applied only if it is convex)
    convex = true; equator_edge = true;
  }
  // one polygon in 20: the four vertices of a cell of depth 22..29 (as the crate returns them), covered at that depth .. that depth + 2:
  // edges of 1e-9 .. 1e-6 rad running exactly along cell-edge directions (where the exact mode looks for special points)
  if rng.below(20) == 0 && special.is_none() && !pole_edge && !apex_vertex && !equator_edge {
    let dv = 22 + rng.below(8) as u8; let cs = crate::gen::sample_cells(rng, dv, 4); let hv = *rng.pick(&cs);
    let vs = nested::get_or_create(dv).vertices(hv); let cc = nested::get_or_create(dv).center(hv);
    if cc.1.abs() < PI / 2.0 - 0.05 {
      pts = vs.to_vec(); lon = cc.0; lat = cc.1; convex = true; rmax = vs.iter().map(|v| dist(*v, cc)).fold(0.0, f64::max); depth = (dv + rng.below(3) as u8).min(29); cell_polygon = true;
    }
  }
  let cw = rng.coin();
  if cw { pts.reverse(); }
  // vertices given with longitudes outside [0, 2pi) (one polygon in 12, each vertex independently)
  // (one in 3 when an edge lies on a meridian k.pi/2: the two ends of the same meridian given with different numbers of turns)
  if rng.below(if on_seam { 3 } else { 12 }) == 0 { for p in pts.iter_mut() { if rng.coin() { p.0 += *rng.pick(&[-2.0, -1.0, 1.0]) * TWO_PI; } } }
  for p in pts.iter() { vl.push(p.0); vb.push(p.1); }
  Some(Case::new("poly").u("depth", depth as u64).b("convex", convex).b("cw", cw).f("lon", lon).f("lat", lat).f("R", rmax).fl("vl", &vl).fl("vb", &vb).u("s", rng.next() >> 1).s("cls", &format!("R~1e{}{}", rmax.log10().floor() as i32, if equator_edge { "/edge-on-or-symmetric-about-the-equator" } else if apex_vertex { "/vertex-at-the-apex-of-its-edge" } else if pole_edge { "/edge-aimed-at-a-pole" } else if cell_polygon { "/cell-of-depth>=22" } else if on_seam { "/edge-on-k.pi/2" } else if near_meridian_edge { "/edge-almost-meridian" } else { "" })))
}

fn run(ctx: &mut Ctx, extra: &mut BTreeMap<String, String>) {
  let seed = ctx.seed;
  let small = ctx.pass != "release";
  let n = if ctx.thorough { if small { 480_000 } else { 4_000_000 } } else if small { 48_000 } else { 320_000 };
  extra.insert("polygons".into(), format!("{}", n));
  run_sharded(ctx, 16, |c, k| {
    let mut rng = Rng::new(seed, 1200 + k as u64);
    let mut done = 0;
    while done < n / 16 { if let Some(case) = gen_poly(&mut rng) { judge(c, &case); done += 1; } }
  });
}

pub fn judge(ctx: &mut Ctx, c: &Case) {
  let depth = c.gu("depth") as u8; let convex = c.gb("convex"); let (lon, lat, rmax) = (c.gf("lon"), c.gf("lat"), c.gf("R"));
  let poly: Vec<(f64, f64)> = c.gfl("vl").into_iter().zip(c.gfl("vb").into_iter()).collect();
  // radius of the circle centred on (lon, lat) that really contains the vertices as given (a vertex replaced by a nearby special point
  // may be a hair outside the nominal circle)
  let rmax = poly.iter().map(|v| dist(*v, (lon, lat))).fold(rmax, f64::max);
  let mut rng = Rng::new(c.gu("s"), 17);
  let fp = [depth as u64, lon.to_bits(), lat.to_bits(), rmax.to_bits(), poly.len() as u64, c.gu("s")];
  // classification
  let lons: Vec<f64> = poly.iter().map(|p| p.0.rem_euclid(TWO_PI)).collect();
  if poly.iter().any(|p| p.0 < 0.0 || p.0 >= TWO_PI) { ctx.hard("polygon:vertex-longitude-outside-[0,2pi)", &fp); }
  let crosses0 = lons.iter().any(|&l| l < 1.0) && lons.iter().any(|&l| l > 5.0);
  if crosses0 && poly.iter().any(|p| p.1.abs() > trans_lat()) { ctx.hard("polygon:edge-crosses-lon=0-inside-a-polar-cap", &fp); }
  let dl = { let m = lon.rem_euclid(PI / 2.0); m.min(PI / 2.0 - m) };
  let mut hard = false;
  if lat.abs() + rmax > PI / 2.0 - 0.02 { ctx.hard("polygon:within-0.02rad-of-a-pole(not-reaching-it)", &fp); hard = true; }
  if crosses0 { ctx.hard("polygon:crosses-lon=0", &fp); hard = true; }
  if dl * lat.cos() <= rmax { ctx.hard("polygon:crosses-a-meridian-k.pi/2", &fp); hard = true; }
  if (lat.abs() - trans_lat()).abs() <= rmax { ctx.hard("polygon:crosses-transition-latitude", &fp); hard = true; }
  if rmax * (nside(depth) as f64) < 1.0 { ctx.hard("polygon:smaller-than-a-cell", &fp); hard = true; }
  if rmax < 1e-6 { ctx.hard("polygon:R<1e-6rad", &fp); hard = true; }
  if c.gb("cw") { ctx.hard("polygon:clockwise", &fp); hard = true; }
  if !hard { ctx.bump("plain-polygons"); }
  // cones containing the polygon (the statement quantifies over any such cone of radius < 0.3): the generation circle, and for
  // each edge a cone centred far on the inner side of the edge (nearly the half-space of that edge) whose radius reaches the farthest vertex
  let mut cones: Vec<([f64; 3], f64)> = Vec::new();
  if rmax < 0.3 {
    cones.push((v3((lon, lat)), rmax));
    let g = v3((lon, lat)); let vs: Vec<[f64; 3]> = poly.iter().map(|p| v3(*p)).collect();
    let ang = |a: [f64; 3], b: [f64; 3]| norm(cross(a, b)).atan2(dot(a, b));
    for i in 0..vs.len() { let (a, b) = (vs[i], vs[(i + 1) % vs.len()]);
      let mut n = cross(a, b); let nn = norm(n); if nn < 1e-300 { continue; } n = [n[0] / nn, n[1] / nn, n[2] / nn]; if dot(n, g) < 0.0 { n = [-n[0], -n[1], -n[2]]; }
      let mut m = [a[0] + b[0], a[1] + b[1], a[2] + b[2]]; let mn = norm(m); m = [m[0] / mn, m[1] / mn, m[2] / mn];
      for &rho in [0.28, 0.2, 0.1, 0.03, 0.01].iter() { let rho = if rho < 3.0 * rmax { continue } else { rho }; let (sr, cr) = f64::sin_cos(rho);
        let cc = [m[0] * cr + n[0] * sr, m[1] * cr + n[1] * sr, m[2] * cr + n[2] * sr];
        let r = vs.iter().map(|v| ang(cc, *v)).fold(0.0, f64::max) * (1.0 + 1e-9) + 1e-15;
        if r < 0.3 { cones.push((cc, r)); break; } } }
  }
  // hostile call history (one polygon in 6): the same thread first covers a sibling polygon (same vertices in reverse order, or rotated
  // list, or shifted by a small amount, or at the next depth)
  if c.gu("s") % 6 == 1 {
    let mut sib = poly.clone(); let mut d2 = depth;
    match (c.gu("s") / 6) % 4 { 0 => sib.reverse(), 1 => sib.rotate_left(1), 2 => { for p in sib.iter_mut() { p.0 += 0.37 * rmax; } } _ => { d2 = if depth > 0 { depth - 1 } else { 1 }; } }
    let _ = catch(|| nested::polygon_coverage(d2, &sib, c.gu("s") % 2 == 0));
    ctx.hard("polygon:judged-right-after-a-sibling-call", &fp);
  }
  for &exact in [false, true].iter() {
    let ce = c.clone().b("exact", exact);
    ctx.eval();
    precall(&ce);
    let res = catch(|| nested::polygon_coverage(depth, &poly, exact));
    postcall();
    let b = match res { Ok(b) => b, Err(p) => { let msg: String = p.chars().take(48).collect(); ctx.violation("polygon_coverage-panics", ce.clone().s("at", panic_loc(&p)).s("msg", &msg), p); continue; } };
    let c09 = ctx.prop == "C09";
    let cells = match walk(&b, 100_000) { Ok(_) => cells_of(&b), Err(e) => { ctx.violation(if c09 { "malformed-bmoc-from-polygon_coverage" } else { "polygon_coverage-result-not-well-formed" }, ce.clone(), e); continue; } };
    if b.get_depth_max() != depth { ctx.violation("polygon_coverage-depth_max-not-the-query-depth", ce.clone(), format!("{}", b.get_depth_max())); }
    let cover = Cover::new(depth, &cells);
    for (k, v) in poly.iter().enumerate() {
      ctx.eval();
      let h = nested::hash(depth, v.0, v.1);
      // a vertex lying on a cell border (exact grid points, or within rounding of a border once its longitude is brought back to
      // [0, 2pi) by the crate) belongs to several closed cells: any covered cell that contains it (reference geometry) will do
      let covered_by_a_cell_containing_it = || -> bool {
        let e = 1e-3 / nside(depth) as f64;
        for &dx in [-e, 0.0, e].iter() { for &dy in [-e, 0.0, e].iter() {
          let q = (v.0 + dx / v.1.cos().max(1e-6), (v.1 + dy).max(-PI / 2.0).min(PI / 2.0));
          if let Ok(hq) = catch(|| nested::hash(depth, q.0, q.1)) { if cover.get(depth, hq).is_some() && contains(depth, hq, v.0, v.1, plane_tol(v.0) + 4e-16).0 { return true; } }
        } }
        false
      };
      if cover.get(depth, h).is_none() && !covered_by_a_cell_containing_it() { ctx.violation("polygon-vertex-cell-missing", ce.clone().u("k", k as u64), format!("vertex {} {:?} in cell {} not covered; {} cells", k, v, h, cells.len())); break; }
    }
    for &(d, h, f) in cells.iter() {
      if convex && f {
        ctx.eval();
        let mut pts = ref_vertices(d, h).to_vec(); pts.push(ref_center(d, h));
        for p in pts { let m = convex_margin_acc(&poly, (lon, lat), rmax, p); if m < -1e-12 { ctx.violation("cell-flagged-full-has-a-vertex-or-centre-outside-the-polygon", ce.clone().u("cd", d as u64).u("ch", h), format!("cell {}/{} point {:?} margin {:e}", d, h, p, m)); break; } }
      }
      if rmax < 0.3 {
        ctx.eval();
        let cv = v3(ref_center(d, h)); let mut far = None;
        for (k, (cc, r)) in cones.iter().enumerate() { let dc = if k == 0 { dist(ref_center(d, h), (lon, lat)) } else { norm(cross(*cc, cv)).atan2(dot(*cc, cv)) };
          if dc > (r + 2.0 * cell_radius_bound(d)) * (1.0 + 1e-9) + 1e-15 { far = Some((k, dc, *r)); break; } }
        if let Some((k, dc, r)) = far { ctx.violation("reported-cell-farther-than-R+2-cell-radii", ce.clone().u("cd", d as u64).u("ch", h).u("cone", k as u64), format!("cell {}/{} centre at {:e} from the centre of containing cone #{} of radius {:e} (cone 0 = generation circle, k>0 = cone hugging edge k-1); 2 x c2v bound = {:e}", d, h, dc, k, r, 2.0 * cell_radius_bound(d))); break; }
      }
    }
    // interior witnesses: information only (not claimed)
    if convex { let mut miss = 0; for _ in 0..40 { let p = point_at(lon, lat, rmax * rng.f(), rng.f() * TWO_PI); if convex_margin_acc(&poly, (lon, lat), rmax, p) > 1e-9 { if cover.get(depth, nested::hash(depth, p.0, p.1)).is_none() { miss += 1; } } } if miss > 0 { ctx.info("interior-witness-not-covered(not-claimed)"); } }
    if ctx.samples.len() < 6 && hard && exact && c.gu("s") % 7 == 0 { ctx.sample(&ce, &format!("{} cells ({} full)", cells.len(), cells.iter().filter(|x| x.2).count())); }
  }
  // point-in-polygon predicate
  if convex && rmax < 0.3 {
    let r = catch(|| Polygon::new(poly.iter().map(|p| LonLat { lon: p.0, lat: p.1 }).collect::<Vec<_>>().into_boxed_slice()));
    match r {
      Err(p) => ctx.violation("Polygon::new-panics", c.clone(), p),
      Ok(pg) => for k in 0..(60 + 11 * poly.len()) {
        // 60 probes on the sphere / around the polygon, then for each vertex 7 probes on its meridian +- 0..3 ulps (the degenerate case of
        // a ray-casting test: the probe's longitude equals, or is within rounding of, a vertex longitude), at a random latitude of the polygon's extent
        // ... and 4 probes on the vertex meridian (+- 0..1 ulp) at 1e-9 R .. R north / south of the vertex itself (log-uniform)
        let p = if k >= 60 + 7 * poly.len() { let j = k - 60 - 7 * poly.len(); let v = poly[j / 4]; let sg = if j % 2 == 0 { 1.0 } else { -1.0 };
            (nudge(v.0, (j % 4) as i64 / 2), (v.1 + sg * rmax * rng.log_uniform(1e-9, 1.0)).max(-PI / 2.0).min(PI / 2.0)) }
          else if k >= 60 { let v = poly[(k - 60) / 7]; let u = ((k - 60) % 7) as i64 - 3; (nudge(v.0, u), (lat + rmax * 1.2 * (2.0 * rng.f() - 1.0)).max(-PI / 2.0).min(PI / 2.0)) }
          else if k % 3 == 0 { rng.sphere() } else { point_at(lon, lat, rmax * 1.5 * rng.f(), rng.f() * TWO_PI) };
        let m = convex_margin_acc(&poly, (lon, lat), rmax, p);
        if m.abs() < 1e-12 { continue; }
        // the documented pole heuristic: points within 0.02 rad of a pole are outside the claim
        ctx.eval();
        match catch(|| pg.contains(&Coo3D::from_sph_coo(p.0, p.1))) {
          Err(e) => { ctx.violation("Polygon::contains-panics", c.clone().f("px", p.0).f("py", p.1), e); break; }
          Ok(got) => if got != (m > 0.0) { ctx.violation("Polygon::contains-differs-from-the-geometric-definition", c.clone().f("px", p.0).f("py", p.1), format!("point {:?} margin {:e} contains={}", p, m, got)); break; }
        }
      }
    }
  }
}

fn replay(ctx: &mut Ctx, c: &Case) { judge(ctx, c); }
