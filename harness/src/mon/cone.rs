//! C05 — cone coverage never misses.  C06 — flags truthful, coverage tight, all-sky, packed.
//! One engine judges both on the same executions; the run's property decides which violations count.
use crate::bm::*;
use crate::gen::*;
use crate::refm::*;
use crate::util::*;
use crate::Monitor;
use cdshealpix::nested;
use std::collections::BTreeMap;
use std::f64::consts::PI;
use std::sync::OnceLock;

pub fn monitor_c05() -> Monitor {
  Monitor { id: "C05",
    rule: "cones: centres from the sphere / pole (log-uniform 1e-12..0.05 from it, and exact) / seam meridians k.pi/4 / transition-latitude generators, exact cell centres and cell vertices; radii: log-uniform 1e-10..pi, 1e-3..60 cell sizes of the query depth, radii at (1 +- {1e-12,1e-6,1e-3,1e-2,3e-2,5e-2}) x each best_starting_depth threshold (located by bisection), r > pi/2 and r -> pi, centres given with |lon| up to 1e14 rad (depth coarse enough for 4e-16 |lon| to stay below 1e-3 cell; that slack is added to every tolerance), nearly-all-sky cones at query depths 12..25 whose excluded cap is 1e-3..60 cells wide (machines with > 40 GB); query depth 0..29 (internal depth+delta <= 29) with radius/cell <= 60 so that the result stays small; variants approx, custom(delta 0..4), flat. Oracle: the cell of the centre (crate's own hash) is covered; >= 200 witness points strictly inside the cone (64 evenly spaced bearings at 0.999999 r, random rho) hashed with the crate's hash must be covered by the BMOC (cell or ancestor); for depth <= 4 every cell with one of 25 inner grid points inside the cone must be covered; for r > pi/2, 32 more witnesses just outside the excluded cap around the antipode of the centre (at (1 + {1e-6..0.3}) x (pi - r), or pi - r + {1e-6..0.3} cells, from the antipode; distances measured from the antipode). Non-trivial = cone containing a pole, touching a seam meridian or the transition latitude, radius within 5% of a threshold, radius > pi/2, delta > 0, or centre exactly at a cell centre/vertex.",
    assumptions: &["Layer::hash (C01) locates the witnesses", "witnesses are kept only if their accurately recomputed distance is <= r(1-1e-9)"],
    run, replay }
}
pub fn monitor_c06() -> Monitor {
  Monitor { id: "C06",
    rule: "same cones as C05 (same generator and seeds). For every returned cell: if flagged full, its 4 reference vertices and 12 reference edge points are within r(1+1e-9)+1e-14 of the centre; its centre is within r + 2 x the largest centre-to-vertex distance of the depth of the cell (measured per depth); for r > pi/2, 17 probes inside the excluded cap around the antipode of the centre must not fall in a full cell and the border points of full cells near the antipode are at >= pi - r from it (distances measured from the antipode, tolerance 2e-13); r >= pi yields exactly the 12 full base cells; no four full siblings; well formed (C09 walker). Non-trivial as in C05, plus cones returning at least one full cell.",
    assumptions: &["reference cell geometry (vertices / edge points)", "largest centre-to-vertex distance of a depth: measured exhaustively for depths 0..10 (0.8411 at depth 0 .. 1.06877/nside at depth 10), 1.0690/nside beyond (refm::cell_radius_bound)"],
    run, replay }
}

/// (cell, reference centre, reference vertices) of every cell of levels 0..2
fn coarse_cells(k: u8) -> &'static Vec<(u64, (f64, f64), [(f64, f64); 4])> {
  static T: OnceLock<Vec<Vec<(u64, (f64, f64), [(f64, f64); 4])>>> = OnceLock::new();
  &T.get_or_init(|| (0..3u8).map(|k| (0..n_hash(k)).map(|h| (h, ref_center(k, h), ref_vertices(k, h))).collect()).collect())[k as usize]
}

/// more than 40 GB of RAM (MemTotal): the deep nearly-all-sky class needs 12 GB of untouched virtual memory per call
pub fn big_memory() -> bool {
  static M: OnceLock<bool> = OnceLock::new();
  *M.get_or_init(|| std::fs::read_to_string("/proc/meminfo").ok().and_then(|s| s.lines().find(|l| l.starts_with("MemTotal:")).and_then(|l| l.split_whitespace().nth(1).and_then(|v| v.parse::<u64>().ok()))).map_or(false, |kb| kb > 40_000_000))
}
pub fn thresholds() -> &'static Vec<f64> { static T: OnceLock<Vec<f64>> = OnceLock::new(); T.get_or_init(bsd_thresholds) }

pub fn gen_cone(rng: &mut Rng, allow_dd: bool) -> Case {
  let thr = thresholds();
  loop {
    let mut depth = rng.below(30) as u8;
    // delta_depth of the custom variant: mostly 1..4, sometimes 5..12 (deep degradations, other z-order / packing regimes)
    let dd = if allow_dd && rng.below(3) == 0 { (match rng.below(8) { 0..=5 => 1 + rng.below(4) as u8, 6 => 5 + rng.below(4) as u8, _ => 9 + rng.below(4) as u8 }).min(29 - depth.min(29)) } else { 0 };
    if depth + dd > 29 { depth = 29 - dd; }
    // radii are drawn relative to the cells of the working depth (depth + dd); for dd >= 3 one cone in three is instead sized on the
    // cells of the query depth (0.2..3 cells, dd capped at 8: at most a few thousand deep cells on the border)
    let query_sized = dd >= 3 && dd <= 8 && rng.below(3) == 0;
    let cell = 1.0 / nside(if query_sized { depth } else { depth + dd }) as f64;
    if query_sized { let (lon, lat) = cone_center(rng); return Case::new("cone").u("depth", depth as u64).u("dd", dd as u64).f("lon", any_turn(rng, lon)).f("lat", lat).f("r", (cell * rng.range(0.2, 3.0)).min(PI)).u("s", rng.next() >> 1); }
    let r = match rng.below(9) {
      0 => cell * rng.log_uniform(1e-3, 1.0),
      1 => cell * rng.range(0.2, 3.2),
      2 => cell * 60.0 * rng.f(),
      3 => rng.log_uniform(1e-10, PI),
      4 | 5 => { let d = rng.below(30) as usize; let u = *rng.pick(&[1e-12, 1e-6, 1e-3, 1e-2, 3e-2, 5e-2]); thr[d] * if rng.below(4) == 0 { 1.0 + u } else { 1.0 - u } }
      6 => rng.range(PI / 2.0, PI),
      7 => PI * (1.0 - rng.log_uniform(1e-12, 1e-2)),
      _ => cell * rng.log_uniform(0.5, 60.0),
    };
    let r = r.max(1e-10);
    if r < PI && r / cell > 60.0 { // pick a coarser query depth for this radius
      let mut d = 0u8; while d < 29 && r * nside(d + 1) as f64 <= 60.0 { d += 1; }
      if r * nside(d) as f64 > 60.0 { continue; }
      depth = d.saturating_sub(dd);
    }
    let (mut lon, mut lat) = cone_center(rng);
    // small-cone branch (start depth >= query depth) next to the places where the cell-size bound changes regime:
    // the transition latitude (both sides), the poles, LAT_OF_SQUARE_CELL, and the seams k.pi/2
    if rng.below(8) == 0 {
      let d = rng.below(30) as usize; depth = (d as u8).min(29 - dd);
      let r2 = thr[d] * rng.range(0.05, 1.0);
      let tl = trans_lat(); let s = if rng.coin() { 1.0 } else { -1.0 };
      lat = s * match rng.below(4) { 0 | 1 => tl + (rng.f() - 0.5) * 4.0 * r2, 2 => PI / 2.0 - rng.f() * 3.0 * r2, _ => LAT_OF_SQUARE_CELL + (rng.f() - 0.5) * 4.0 * r2 };
      lat = lat.max(-PI / 2.0).min(PI / 2.0);
      if rng.coin() { lon = (rng.below(5) as f64) * PI / 2.0 + (rng.f() - 0.5) * 6.0 * r2 / lat.cos().max(1e-12); }
      return Case::new("cone").u("depth", depth as u64).u("dd", dd as u64).f("lon", any_turn(rng, lon)).f("lat", lat).f("r", r2.max(1e-10)).u("s", rng.next() >> 1);
    }
    // cones that graze the far side of the sphere: centre = a cell centre of level <= 2 (its antipode is a cell centre too), radius =
    // pi - (true centre-to-vertex distance of the antipodal cell) +- tiny: the cone touches that cell at one vertex only
    if rng.below(16) == 0 {
      let k = rng.below(3) as u8; let h = rng.below(n_hash(k)); let c = nested::get_or_create(k).center(h);
      let anti = ((c.0 + PI).rem_euclid(TWO_PI), -c.1);
      let ha = ref_hash(k, anti.0, anti.1).unwrap_or(0);
      let dv: Vec<f64> = ref_vertices(k, ha).iter().map(|v| dist(*v, ref_center(k, ha))).collect();
      let dsel = dv[rng.below(4) as usize];
      let delta = *rng.pick(&[-1e-9, 1e-12, 1e-9, 1e-8, 4e-8, 6e-8, 1e-7, 1e-6, 1e-4]);
      let depth2 = (k + rng.below(4) as u8).min(29 - dd);
      return Case::new("cone").u("depth", depth2 as u64).u("dd", dd as u64).f("lon", c.0).f("lat", c.1).f("r", (PI - dsel + delta).min(PI)).u("s", rng.next() >> 1);
    }
    // nearly-all-sky cones centred exactly on a cell centre of level <= 8: the excluded region around the antipode is smaller than the
    // cell centred on that antipode, whose centre is at distance pi (to rounding) from the cone centre
    if rng.below(16) == 0 {
      let k = rng.below(9) as u8; let h = rng.below(n_hash(k)); let c = nested::get_or_create(k).center(h);
      let cellk = 1.0 / nside(k) as f64;
      let depth2 = (k + rng.below(3) as u8).min(29 - dd);
      let r2 = if rng.below(4) == 0 { PI * (1.0 - rng.log_uniform(1e-12, 1e-3)) } else { PI - cellk * rng.log_uniform(1e-6, 0.5) };
      return Case::new("cone").u("depth", depth2 as u64).u("dd", dd.min(29 - depth2) as u64).f("lon", c.0).f("lat", c.1).f("r", r2.max(1e-10)).u("s", rng.next() >> 1);
    }
    // centre given with a longitude of thousands to 1e13 turns (|lon| log-uniform in 1e3 .. 1e14 rad); the query depth is kept coarse enough
    // for the rounding of the longitude itself (4e-16 |lon|) to stay below 1e-3 cell
    if rng.below(30) == 0 {
      let big = rng.log_uniform(1e3, 1e14) * if rng.coin() { 1.0 } else { -1.0 };
      let tolp = 4e-16 * big.abs();
      let mut d = depth.min(29 - dd); while d > 0 && (1.0 / nside(d + dd) as f64) < 1e3 * tolp { d -= 1; }
      if (1.0 / nside(d + dd) as f64) >= 1e3 * tolp {
        let cellq = 1.0 / nside(d + dd) as f64;
        let r2 = match rng.below(3) { 0 => rng.log_uniform(1e-10, cellq), 1 => cellq * rng.range(0.2, 30.0), _ => (cellq * rng.log_uniform(1e-3, 50.0)).min(3.0) };
        return Case::new("cone").u("depth", d as u64).u("dd", dd as u64).f("lon", big).f("lat", lat).f("r", r2.max(1e-10)).u("s", rng.next() >> 1);
      }
    }
    // nearly-all-sky cones at deep query depths: the excluded cap around the antipode is 1e-3..60 cells of the working depth wide, so the
    // result is small although radius/cell is huge (the crate reserves 4(1 + 2 sqrt3 nside r) entries of virtual memory per call:
    // 12 GB at depth 25 — class generated only when the machine has more than 40 GB, and up to depth 25)
    if rng.below(24) == 0 && big_memory() {
      let depth2 = (12 + rng.below(14) as u8).min(25 - dd.min(4)); let dd2 = dd.min(4);
      let rho = (1.0 / nside(depth2 + dd2) as f64) * rng.log_uniform(1e-3, 60.0);
      if rng.below(3) == 0 { let k = rng.below(6) as u8; let cc = nested::get_or_create(k).center(rng.below(n_hash(k))); lon = cc.0; lat = cc.1; }
      return Case::new("cone").u("depth", depth2 as u64).u("dd", dd2 as u64).f("lon", lon).f("lat", lat).f("r", PI - rho).u("s", rng.next() >> 1);
    }
    match rng.below(12) {
      0 => { let d = rng.below(30) as u8; let cs = sample_cells(rng, d, 4); let h = *rng.pick(&cs); let c = nested::get_or_create(d).center(h); lon = c.0; lat = c.1; }
      1 => { let d = rng.below(30) as u8; let cs = sample_cells(rng, d, 4); let h = *rng.pick(&cs); let v = nested::get_or_create(d).vertices(h)[rng.below(4) as usize]; lon = v.0; lat = v.1; }
      2 => { let c = nested::get_or_create(depth).center(rng.below(n_hash(depth))); lon = c.0; lat = c.1; }
      _ => {}
    }
    return Case::new("cone").u("depth", depth as u64).u("dd", dd as u64).f("lon", any_turn(rng, lon)).f("lat", lat).f("r", r).u("s", rng.next() >> 1);
  }
}

fn run(ctx: &mut Ctx, extra: &mut BTreeMap<String, String>) {
  let seed = ctx.seed;
  let small = ctx.pass != "release";
  let n = if ctx.thorough { if small { 6000 } else { 1_500_000 } } else if small { 600 } else { 48_000 };
  extra.insert("cones".into(), format!("{}", n));
  let _ = thresholds();
  run_sharded(ctx, 16, |c, k| {
    let mut rng = Rng::new(seed, 500 + k as u64);
    for _ in 0..n / 16 { let case = gen_cone(&mut rng, true); judge(c, &case); }
    if k == 0 { for &r in [PI, nudge(PI, 1), 3.5, 10.0].iter() { for &d in [0u8, 3, 11, 29].iter() { judge(c, &Case::new("cone").u("depth", d as u64).u("dd", 0).f("lon", 1.0).f("lat", -0.3).f("r", r).u("s", 1)); } } }
  });
}

/// report for C05 (miss) or C06 (flag / tight / packed): counted only for the run's property
fn report(ctx: &mut Ctx, prop: &str, sig: &str, case: Case, detail: String) {
  if ctx.prop == prop || (ctx.prop != "C05" && ctx.prop != "C06" && prop == ctx.prop) { ctx.violation(sig, case, detail); } else { ctx.info(&format!("{}:{}", prop, sig)); }
}

pub fn judge(ctx: &mut Ctx, c: &Case) {
  let (depth, dd, lon, lat, r) = (c.gu("depth") as u8, c.gu("dd") as u8, c.gf("lon"), c.gf("lat"), c.gf("r"));
  let mut rng = Rng::new(c.gu("s"), 11);
  let thr = thresholds();
  // hostile call history (one cone in 6): just before the judged call, the same thread makes a sibling call that differs in ONE argument
  // (longitude moved to the central meridian of its base cell / random, latitude mirrored, radius changed, depth changed): any state
  // kept between calls and keyed on part of the arguments (a memo, a thread-local cache) is primed with a near-identical key
  if c.gu("s") % 6 == 1 {
    let q = std::f64::consts::FRAC_PI_2;
    let (l2, b2, r2, d2) = match (c.gu("s") / 6) % 5 {
      0 => ((lon / q).floor() * q + q / 2.0, lat, r, depth),
      1 => (rng.f() * TWO_PI, lat, r, depth),
      2 => (lon, -lat, r, depth),
      3 => (lon, lat, (r * 1.5).min(PI), depth),
      _ => (lon, lat, r, if depth > 0 { depth - 1 } else { depth + 1 }),
    };
    let _ = catch(|| if dd == 0 || d2 + dd > 29 { nested::cone_coverage_approx(d2, l2, b2, r2) } else { nested::cone_coverage_approx_custom(d2, dd, l2, b2, r2) });
    ctx.hard("cone:judged-right-after-a-sibling-call(one-argument-changed)", &[depth as u64, dd as u64, lon.to_bits(), lat.to_bits(), r.to_bits()]);
  }
  ctx.eval();
  precall(c);
  let res = catch(|| if dd == 0 { nested::cone_coverage_approx(depth, lon, lat, r) } else { nested::cone_coverage_approx_custom(depth, dd, lon, lat, r) });
  postcall();
  let b = match res { Ok(b) => b, Err(p) => { let loc = panic_loc(&p).to_string(); report(ctx, "C05", "cone-coverage-panics", c.clone().s("at", &loc), p); return; } };
  let c09 = ctx.prop == "C09";
  let cells = match walk(&b, 100_000) { Ok(_) => cells_of(&b), Err(e) => { if c09 { ctx.violation("malformed-bmoc-from-cone_coverage", c.clone(), e); } else { report(ctx, "C06", "cone-coverage-result-not-well-formed", c.clone(), e); } return; } };
  if b.get_depth_max() != depth { report(ctx, "C06", "cone-coverage-depth_max-not-the-query-depth", c.clone(), format!("{}", b.get_depth_max())); }
  let layer = nested::get_or_create(depth);
  let cell = 1.0 / nside(depth) as f64;
  // classification
  let tl = trans_lat();
  let dstart = if r < thr[0] { Some((0..30).rev().find(|&k| r < thr[k]).unwrap_or(0)) } else { None };
  let ratio = dstart.map(|d| r / thr[d]).unwrap_or(f64::NAN);
  let dl = { let m = lon.rem_euclid(PI / 2.0); m.min(PI / 2.0 - m) };
  let fp = [depth as u64, dd as u64, lon.to_bits(), lat.to_bits(), r.to_bits()];
  let mut hard = false;
  if lat.abs() + r >= PI / 2.0 { ctx.hard("cone:contains-a-pole", &fp); hard = true; }
  if r > PI / 2.0 { ctx.hard("cone:radius>pi/2", &fp); hard = true; }
  if ratio > 0.95 && ratio < 1.0 || dstart.map_or(false, |d| d > 0 && r / thr[d - 1] > 0.0 && (thr[d] / r) > 0.95 && r >= thr[d]) { ctx.hard("cone:radius-within-5%-of-a-threshold", &fp); hard = true; }
  if (lat.abs() - tl).abs() <= r { ctx.hard("cone:touches-transition-latitude", &fp); hard = true; }
  if dl * lat.cos() <= r { ctx.hard("cone:touches-a-meridian-k.pi/2", &fp); hard = true; }
  if dd > 0 { ctx.hard("cone:custom-delta>0", &fp); hard = true; }
  if !hard { ctx.bump("plain-cones"); }
  // ---------------- C05: witnesses
  let cover = Cover::new(depth, &cells);
  // a longitude of many turns is itself known to a few ulps only: 4e-16 |lon| rad of positional slack on the centre (0 within 50 rad)
  let tol_pos = if lon.abs() > 50.0 { 4e-16 * lon.abs() } else { 0.0 };
  if lon.abs() > 1e3 { ctx.hard("cone:centre-longitude-beyond-1e3-rad", &fp); }
  // the centre belongs to the cone whatever the radius: its cell (as the crate's own hash reads the position) must be covered
  ctx.eval();
  match catch(|| layer.hash(lon, lat)) { Ok(hc) => if cover.get(depth, hc).is_none() { report(ctx, "C05", "cone-coverage-misses-the-cell-of-its-own-centre", c.clone(), format!("cell {} (hash of the centre at depth {}) not covered; {} cells returned: {}", hc, depth, cells.len(), fmt_cells(&cells))); }, Err(_) => {} }
  let n_w = if r >= PI { 64 } else { 224 };
  let mut missed: Option<((f64, f64), u64, f64)> = None; let mut n_wit = 0;
  let mut wit_cells: Vec<(u64, (f64, f64), f64)> = Vec::new();
  for k in 0..n_w {
    let (rho, th) = if k < 64 { (r * (1.0 - 1e-6), (k as f64 + 0.5) * TWO_PI / 64.0) } else { (match k % 4 { 0 => r * rng.f().sqrt(), 1 => r * (1.0 - 1e-3 * rng.f()), 2 => r * rng.f(), _ => r * (1.0 - rng.log_uniform(1e-7, 0.5)) }, rng.f() * TWO_PI) };
    let p = point_at(lon, lat, rho.min(PI), th);
    let d = dist(p, (lon, lat));
    if !(d <= r * (1.0 - 1e-9) - 8.0 * tol_pos) { continue; }
    n_wit += 1;
    let h = match catch(|| layer.hash(p.0, p.1)) { Ok(h) => h, Err(_) => continue };
    wit_cells.push((h, p, d));
    if cover.get(depth, h).is_none() && missed.is_none() { missed = Some((p, h, d)); }
  }
  // radius > pi/2: witnesses just outside the excluded cap (radius rho = pi - r around the antipode of the centre), i.e. just inside the
  // cone on its far side, placed and validated with distances measured from the antipode (near pi the direct distance resolves 1e-8 only)
  if r > PI / 2.0 && r < PI {
    let rho = PI - r; let anti = ((lon + PI).rem_euclid(TWO_PI), -lat); let tol = far_tol(2e-13, lon);
    for k in 0..32 {
      let u = [1e-6, 1e-3, 0.03, 0.3][k % 4]; let th = (k as f64 + 0.4) * TWO_PI / 32.0;
      let cellw = 1.0 / nside(depth + dd) as f64;
      let da = if k % 8 < 4 { rho * (1.0 + u) + 2.0 * tol } else { rho + u * cellw + 2.0 * tol };
      if !(da < PI / 2.0) { continue; }
      let p = point_at(anti.0, anti.1, da, th);
      let d_anti = dist(p, anti);
      if !(d_anti >= rho * (1.0 + 1e-9) + tol) { continue; }
      n_wit += 1;
      let h = match catch(|| layer.hash(p.0, p.1)) { Ok(h) => h, Err(_) => continue };
      wit_cells.push((h, p, PI - d_anti));
      if cover.get(depth, h).is_none() && missed.is_none() { missed = Some((p, h, PI - d_anti)); }
    }
    ctx.hard("cone:far-side-witnesses(next-to-the-excluded-cap)", &fp);
  }
  // directed witnesses for large cones: the coarse cells (levels 0..2) that the cone only grazes at a vertex. The witness is the vertex moved
  // towards the cell centre by a quarter of its depth inside the cone: inside the cell and inside the cone.
  if r > 0.05 && r < PI {
    for k in 0..=depth.min(2) { for (hc, ctr, vs) in coarse_cells(k).iter() { for v in vs.iter() {
      let dv = dist(*v, (lon, lat)); let slack = r * (1.0 - 1e-9) - dv;
      if !(slack > 0.0 && slack < 1e-3) { continue; }
      let dc = dist(*v, *ctr); let eta = (0.25 * slack).min(0.1 * dc);
      let (vv, vc) = (v3(*v), v3(*ctr)); let cq = dot(vv, vc);
      let mut t = [vc[0] - cq * vv[0], vc[1] - cq * vv[1], vc[2] - cq * vv[2]]; let nt = norm(t); if !(nt > 0.0) { continue; } t = [t[0] / nt, t[1] / nt, t[2] / nt];
      let (se, ce) = f64::sin_cos(eta); let pv = [vv[0] * ce + t[0] * se, vv[1] * ce + t[1] * se, vv[2] * ce + t[2] * se];
      let p = (pv[1].atan2(pv[0]).rem_euclid(TWO_PI), pv[2].atan2((pv[0] * pv[0] + pv[1] * pv[1]).sqrt()));
      let d = dist(p, (lon, lat));
      if !(d <= r * (1.0 - 1e-9) - 8.0 * tol_pos) { continue; }
      // the witness must be in that coarse cell for the reference model too (not on its border)
      if !contains(k, *hc, p.0, p.1, 0.0).0 { continue; }
      n_wit += 1; ctx.hard("cone:grazes-a-coarse-cell-at-a-vertex", &[fp[0], fp[2], fp[3], fp[4], *hc, k as u64]);
      let h = match catch(|| layer.hash(p.0, p.1)) { Ok(h) => h, Err(_) => continue };
      wit_cells.push((h, p, d));
      if cover.get(depth, h).is_none() && missed.is_none() { missed = Some((p, h, d)); }
    } } }
  }
  ctx.evals_n(n_wit);
  if n_wit == 0 && r < PI { ctx.bump("cones-without-usable-witness"); }
  if let Some((p, h, d)) = missed {
    // is the missed cell inside the 3x3 block of the start depth? (R5 attribution)
    let in_block = match dstart { Some(ds) => { let ls = nested::get_or_create(ds as u8); let hc = ls.hash(lon, lat); let blk = ls.neighbours(hc, true).values_vec(); blk.contains(&ls.hash(p.0, p.1)) } _ => true };
    let cc = c.clone().f("ratio", ratio).f("dlon_seam", dl).b("in_start_block", in_block);
    report(ctx, "C05", "cone-coverage-misses-a-cell-containing-a-point-of-the-cone", cc, format!("witness {:?} at {:e} rad (r={:e}, r/cell={:.3}) in cell {} not covered; {} cells returned; start depth {:?} r/threshold={:.6}", p, d, r, r / cell, h, cells.len(), dstart, ratio));
  }
  // exhaustive for small depths (one cone in 4)
  if depth <= 4 && r < PI && c.gu("s") % 4 == 0 {
    let mut n_chk = 0;
    'cells: for h in 0..n_hash(depth) {
      for i in 0..5 { for j in 0..5 {
        let p = ref_sph_coo(depth, h, 0.1 + 0.2 * i as f64, 0.1 + 0.2 * j as f64);
        if dist(p, (lon, lat)) <= r * (1.0 - 1e-9) - 8.0 * tol_pos {
          n_chk += 1;
          if cover.get(depth, h).is_none() { report(ctx, "C05", "cone-coverage-misses-a-cell-containing-a-point-of-the-cone", c.clone().f("ratio", ratio).f("dlon_seam", dl).b("in_start_block", true).b("exhaustive", true), format!("cell {} has inner point {:?} in the cone, not covered", h, p)); break 'cells; }
          continue 'cells;
        }
      }}
    }
    ctx.evals_n(n_chk); ctx.bump("cones-with-exhaustive-cell-scan");
  }
  // variants agree
  // (the flat variant materialises every cell of the query depth: only asked for when that is at most 2e6 cells — an allocation failure
  //  aborts the process, it cannot be caught)
  let deep_cells: f64 = cells.iter().map(|&(d, _, _)| 4f64.powi((depth - d.min(depth)) as i32)).sum();
  if dd == 0 && c.gu("s") % 3 == 0 {
    ctx.eval();
    let flat_ok = deep_cells <= 2e6;
    if !flat_ok { ctx.bump("cones-too-large-for-the-flat-variant(custom(0)-only)"); }
    match catch(|| (if flat_ok { nested::cone_coverage_approx_flat(depth, lon, lat, r) } else { Vec::new().into_boxed_slice() }, nested::cone_coverage_approx_custom(depth, 0, lon, lat, r))) {
      Err(p) => report(ctx, "C05", "cone-coverage-panics", c.clone().s("at", panic_loc(&p)), p),
      Ok((flat, cust)) => {
        // the property is stated per variant: each must cover every witness (equality between variants is not required)
        let cover_c = Cover::new(depth, &cells_of(&cust));
        let sorted = flat.windows(2).all(|w| w[0] < w[1]);
        for &(h, p, d) in wit_cells.iter() {
          // (a witness missed by approx itself is reported once, above, with its R5 attribution)
          if cover_c.get(depth, h).is_none() && cover.get(depth, h).is_some() { report(ctx, "C05", "cone-coverage-misses-a-cell-containing-a-point-of-the-cone", c.clone().s("variant", "custom(delta=0)").f("ratio", ratio).f("dlon_seam", dl).b("in_start_block", true), format!("witness {:?} at {:e} rad in cell {} not covered by custom(delta=0)", p, d, h)); break; }
          let in_flat = !flat_ok || if sorted { flat.binary_search(&h).is_ok() } else { flat.contains(&h) };
          if !in_flat && cover.get(depth, h).is_some() { report(ctx, "C05", "cone-coverage-misses-a-cell-containing-a-point-of-the-cone", c.clone().s("variant", "flat").f("ratio", ratio).f("dlon_seam", dl).b("in_start_block", true), format!("witness {:?} at {:e} rad in cell {} not in the flat array ({} cells)", p, d, h, flat.len())); break; }
        }
      }
    }
  }
  // ---------------- C06
  if r >= PI {
    ctx.eval();
    if cells != (0..12u64).map(|h| (0u8, h, true)).collect::<Vec<_>>() { report(ctx, "C06", "radius>=pi-does-not-yield-the-12-full-base-cells", c.clone(), fmt_cells(&cells)); }
    ctx.hard("cone:all-sky", &fp);
    return;
  }
  ctx.eval();
  if !is_packed(&cells) { report(ctx, "C06", "cone-coverage-not-packed(four-full-siblings)", c.clone(), fmt_cells(&cells)); }
  let mut any_full = false;
  for &(d, h, f) in cells.iter() {
    ctx.eval();
    let ctr = ref_center(d, h);
    let dc = dist(ctr, (lon, lat));
    let lim = r + 2.0 * cell_radius_bound(d) + 8.0 * tol_pos;
    ctx.worst_max("(centre_distance - r) / cell_radius_bound", (dc - r) / cell_radius_bound(d));
    if dc > lim * (1.0 + 1e-12) { report(ctx, "C06", "reported-cell-farther-than-r+2-cell-radii", c.clone().u("cd", d as u64).u("ch", h), format!("cell {}/{} centre at {:e} > {:e}", d, h, dc, lim)); break; }
    if f {
      any_full = true;
      ctx.eval();
      let mut worst = 0.0f64; let mut wp = (0.0, 0.0);
      for p in ref_border_points(d, h, 3) { let dp = dist(p, (lon, lat)); if dp > worst { worst = dp; wp = p; } }
      if worst > r * (1.0 + 1e-9) + 1e-14 + 8.0 * tol_pos { report(ctx, "C06", "cell-flagged-full-sticks-out-of-the-cone", c.clone().u("cd", d as u64).u("ch", h), format!("cell {}/{} border point {:?} at {:e} > r={:e} (excess {:e} = {:.4} cell); result {}", d, h, wp, worst, r, worst - r, (worst - r) * nside(d) as f64, fmt_cells(&cells))); break; }
    }
  }
  // radius > pi/2: the complement of the cone is a small cap of radius rho = pi - r around the antipode of the centre. Distances close to pi
  // are measured from the antipode (well conditioned). (1) probes inside that cap (antipode, 16 points at 0.5 rho and 0.999 rho): the cell that
  // contains a probe must not be flagged full; (2) border points of full cells: their distance to the antipode must be >= rho.
  if r > PI / 2.0 {
    let rho = PI - r; let anti = ((lon + PI).rem_euclid(TWO_PI), -lat);
    let tol = far_tol(2e-13, lon);
    let mut probes = vec![(anti, rho)];
    for k in 0..16 { let f = if k % 2 == 0 { 0.5 } else { 0.999 }; let q = point_at(anti.0, anti.1, rho * f, (k as f64 + 0.25) * TWO_PI / 16.0); probes.push((q, rho - dist(q, anti))); }
    'pr: for (q, margin) in probes { if !(margin > tol) { continue; } ctx.eval();
      let h = match catch(|| layer.hash(q.0, q.1)) { Ok(h) => h, Err(_) => continue };
      if cover.get(depth, h) == Some(true) {
        // the reference model must agree that q is in that covered cell (not just on its border)
        for &(d, hc, f) in cells.iter() { if f && h >> (2 * (depth - d)) == hc && contains(d, hc, q.0, q.1, 0.0).0 {
          report(ctx, "C06", "cell-flagged-full-sticks-out-of-the-cone", c.clone().u("cd", d as u64).u("ch", hc).s("cls", "near-antipode"), format!("cell {}/{} flagged full contains {:?}, which is {:e} rad inside the cap of radius pi - r = {:e} around the antipode of the centre (outside the cone); result {}", d, hc, q, margin, rho, fmt_cells(&cells))); break 'pr; } }
      }
    }
    ctx.hard("cone:complement-cap-probed(r>pi/2)", &fp);
    if rho < 0.2 { 'cl: for &(d, h, f) in cells.iter() { if !f { continue; }
      // only cells near the antipode matter
      if dist(ref_center(d, h), anti) > rho + 2.0 * cell_radius_bound(d) { continue; }
      ctx.eval();
      for p in ref_border_points(d, h, 3) { let da = dist(p, anti); if da < rho - tol - 1e-9 * rho {
        report(ctx, "C06", "cell-flagged-full-sticks-out-of-the-cone", c.clone().u("cd", d as u64).u("ch", h).s("cls", "near-antipode"), format!("cell {}/{} flagged full: border point {:?} is at {:e} rad from the antipode of the centre, inside the excluded cap of radius pi - r = {:e} (by {:e}); result {}", d, h, p, da, rho, rho - da, fmt_cells(&cells))); break 'cl; } }
    } }
  }
  if any_full { ctx.hard("cone:returns-full-cells", &fp); }
  if ctx.samples.len() < 8 && hard && c.gu("s") % 11 == 0 { ctx.sample(c, &format!("{} cells ({} full), {} witnesses, start depth {:?}", cells.len(), cells.iter().filter(|x| x.2).count(), n_wit, dstart)); }
}

fn replay(ctx: &mut Ctx, c: &Case) { judge(ctx, c); }
