//! C19 — bilinear interpolation: partition of unity over the right cells.
use crate::gen::*;
use crate::refm::*;
use crate::util::*;
use crate::Monitor;
use cdshealpix::nested::{self, Layer};
use std::collections::BTreeMap;

pub fn monitor() -> Monitor {
  Monitor { id: "C19",
    rule: "positions = sph_coo(h, dx, dy) for the four quadrant centres, the centre, random interior offsets and offsets within 1e-9 of 0.5 / of the borders, for the class-sampled cells of every depth 0..29 (every cell for depth <= 3/5), with emphasis on the 24 cells per depth lacking a S/E/N/W neighbour; plus the hostile position set (seams, poles, +-ulps, negative / >2pi longitudes) at all depths. Non-trivial = position in a cell with a missing neighbour, or in a cell on a base-cell border (the 4 cells span two base cells), or hostile class, or offset within 1e-9 of a quadrant boundary.",
    assumptions: &["adjacency of two cells = they share a reference vertex (refm::cells_adjacent; independent of Layer::neighbours)", "reference offsets of a position inside a cell (refm::ref_offsets)"],
    run, replay }
}

fn run(ctx: &mut Ctx, extra: &mut BTreeMap<String, String>) {
  let seed = ctx.seed;
  let small = ctx.pass != "release";
  let exh = if ctx.thorough { if small { 3 } else { 5 } } else if small { 2 } else { 3 };
  let n_cells = if ctx.thorough { if small { 200 } else { 4000 } } else if small { 40 } else { 300 };
  let n_pts = if ctx.thorough { if small { 2000 } else { 400000 } } else if small { 300 } else { 3000 };
  extra.insert("exhaustive_up_to_depth".into(), format!("{}", exh));
  let shards = 16usize;
  run_sharded(ctx, shards, |c, k| {
    let mut rng = Rng::new(seed, 1900 + k as u64);
    for depth in 0..30u8 {
      let layer = nested::get_or_create(depth);
      let mut cells: Vec<u64> = if depth <= exh { (0..n_hash(depth)).collect() } else { sample_cells(&mut rng, depth, n_cells) };
      // the cells lacking a cardinal neighbour: corners S/N of equatorial base cells, E/W of polar-cap base cells
      if depth > 0 { let m = nside(depth) as u32 - 1; for d0 in 0..12u64 { for &(i, j) in [(0, 0), (m, 0), (0, m), (m, m)].iter() { cells.push(join(depth, d0, i, j)); } } }
      for (n, &h) in cells.iter().enumerate() {
        if n % shards != k { continue; }
        for q in 0..9 {
          let e = 1e-9 * rng.f();
          let (ox, oy) = match q { 0 => (0.25, 0.25), 1 => (0.75, 0.25), 2 => (0.25, 0.75), 3 => (0.75, 0.75), 4 => (0.5, 0.5),
            5 => (0.5 + (rng.f() - 0.5) * 2e-9, 0.02 + 0.96 * rng.f()), 6 => (0.02 + 0.96 * rng.f(), 0.5 + (rng.f() - 0.5) * 2e-9),
            7 => (if rng.coin() { e } else { 1.0 - 1e-9 + e * 0.5 }, if rng.coin() { e } else { 0.02 + 0.96 * rng.f() }),
            _ => (0.02 + 0.96 * rng.f(), 0.02 + 0.96 * rng.f()) };
          let p = match catch(|| layer.sph_coo(h, ox, oy)) { Ok(p) => p, Err(_) => continue };
          judge(c, layer, depth, p.0, p.1, Some((h, ox, oy)));
        }
      }
    }
    let mut pts = hostile_points(&mut rng, n_pts);
    if k != 0 { let g = grid_points().len(); pts.drain(0..g); }
    for &(lon, lat) in pts.iter() { for depth in 0..30u8 { judge(c, nested::get_or_create(depth), depth, lon, lat, None); } }
  });
}

pub fn judge(ctx: &mut Ctx, layer: &'static Layer, depth: u8, lon: f64, lat: f64, built: Option<(u64, f64, f64)>) {
  let mut mk = Case::new("pos").u("depth", depth as u64).f("lon", lon).f("lat", lat);
  if let Some((h, ox, oy)) = built { mk = mk.u("h", h).f("ox", ox).f("oy", oy); }
  ctx.eval();
  let r = match catch(|| layer.bilinear_interpolation(lon, lat)) { Ok(r) => r, Err(p) => { ctx.violation("bilinear_interpolation-panics-on-valid-position", mk, p); return; } };
  // the free function named in the statement is the same computation
  if (lon.to_bits() ^ lat.to_bits()) % 4 == 0 { ctx.eval(); match catch(|| nested::bilinear_interpolation(depth, lon, lat)) {
    Err(p) => ctx.violation("bilinear_interpolation-panics-on-valid-position", mk.clone().b("free_fn", true), p),
    Ok(f) => if (0..4).any(|k| f[k].0 != r[k].0 || f[k].1.to_bits() != r[k].1.to_bits()) { ctx.violation("free-function-differs-from-Layer-method", mk.clone().b("free_fn", true), format!("{:?} vs {:?}", f, r)); } } }
  let ns = nside(depth) as f64;
  let sum: f64 = r.iter().map(|c| c.1).sum();
  if r.iter().any(|c| !(c.1 >= -1e-12) || !c.1.is_finite()) { ctx.violation("negative-or-non-finite-weight", mk.clone(), format!("{:?}", r)); }
  // the offsets carry ~nside*2^-50 of rounding (see C03): allow it in the sum
  let st = 1e-9 + 16.0 * f64::EPSILON * ns;
  ctx.worst_max("|sum_of_weights-1|", (sum - 1.0).abs());
  if !((sum - 1.0).abs() <= st) { ctx.violation("weights-do-not-sum-to-1", mk.clone(), format!("{:?} sum={}", r, sum)); }
  if r.iter().any(|c| c.0 >= n_hash(depth)) { ctx.violation("cell-out-of-range", mk.clone(), format!("{:?}", r)); return; }
  // a returned cell containing the position (reference)
  ctx.eval();
  let tol = plane_tol(lon) + 4e-16;
  let hc = r.iter().map(|c| c.0).find(|&c| contains(depth, c, lon, lat, tol).0);
  let hc = match hc { Some(h) => h, None => { ctx.violation("no-returned-cell-contains-the-position", mk.clone(), format!("{:?}", r)); return; } };
  // adjacency is decided by the reference geometry (shared vertex), not by the neighbour tables of the crate
  if r.iter().any(|c| !cells_adjacent(depth, hc, c.0)) {
    // the position may sit on a border: try the other returned cells containing it
    let ok = r.iter().map(|c| c.0).filter(|&c| contains(depth, c, lon, lat, tol).0).any(|c| r.iter().all(|x| cells_adjacent(depth, c, x.0)));
    if !ok { ctx.violation("returned-cell-is-neither-the-containing-cell-nor-a-neighbour", mk.clone(), format!("containing {} result {:?}", hc, r)); }
  }
  if let Some((h, ox, oy)) = built {
    ctx.eval();
    let interior = ox > 1e-6 && ox < 1.0 - 1e-6 && oy > 1e-6 && oy < 1.0 - 1e-6;
    if interior && !r.iter().any(|c| c.0 == h) { ctx.violation("containing-cell-absent", mk.clone(), format!("{:?}", r)); }
    if ox == 0.5 && oy == 0.5 { let w: f64 = r.iter().filter(|c| c.0 == h).map(|c| c.1).sum(); ctx.worst_max("|weight_at_centre-1|", (w - 1.0).abs()); if (w - 1.0).abs() > 1e-6 + 16.0 * f64::EPSILON * ns { ctx.violation("weight-on-the-cell-at-its-centre-not-1", mk.clone(), format!("{:?}", r)); } }
  }
  // weighted mean of the centres in the cell grid == position, when the four cells are in one base cell
  let d0 = hc >> (2 * depth);
  let nm = layer.neighbours(hc, false);
  let n_neigh = nm.values_vec().len();
  if r.iter().all(|c| c.0 >> (2 * depth) == d0) && (n_neigh == 8 || depth == 0) && depth > 0 {
    if let Some((fx, fy)) = ref_offsets(depth, hc, lon, lat) {
      ctx.eval();
      let (ci, cj) = { let (_, i, j) = split(depth, hc); (i as f64, j as f64) };
      let (mut mi, mut mj) = (0.0, 0.0);
      for c in r.iter() { let (_, i, j) = split(depth, c.0); mi += c.1 * (i as f64 - ci + 0.5); mj += c.1 * (j as f64 - cj + 0.5); }
      let t = 1e-6 + 64.0 * f64::EPSILON * ns * (lon.abs() * 4.0 / std::f64::consts::PI).max(8.0) / 8.0;
      ctx.worst_max("|weighted_mean-position|_cells", (mi - fx).abs().max((mj - fy).abs()));
      if (mi - fx).abs() > t || (mj - fy).abs() > t { ctx.violation("weighted-mean-of-cell-centres-is-not-the-position", mk.clone(), format!("mean=({}, {}) position=({}, {}) {:?}", mi, mj, fx, fy, r)); } else { ctx.bump("weighted-mean-checked"); }
    }
  }
  // next to a three-cell point the missing corner contributes weight 0 (an entry (h, 0.0)).
  // The position may lie on a border (several returned cells contain it): the rule must hold for one of them taken as "the" cell.
  if n_neigh < 8 && depth > 0 {
    use cdshealpix::compass_point::MainWind;
    let e = 1e-6 + 64.0 * f64::EPSILON * ns;
    let mut judged = false; let mut consistent = false;
    for cand in r.iter().map(|c| c.0).filter(|&c| contains(depth, c, lon, lat, tol).0) {
      if let Some((fx, fy)) = ref_offsets(depth, cand, lon, lat) {
        if (fx - 0.5).abs() <= e || (fy - 0.5).abs() <= e { consistent = true; continue; }
        let dir = match (fx > 0.5, fy > 0.5) { (false, false) => MainWind::S, (true, false) => MainWind::E, (false, true) => MainWind::W, (true, true) => MainWind::N };
        if layer.neighbours(cand, false).get(dir).is_none() { judged = true; if r.iter().any(|c| c.0 == cand && c.1 == 0.0) { consistent = true; } } else { consistent = true; }
      }
    }
    if judged { ctx.eval(); ctx.bump("missing-corner-quadrants-judged"); if !consistent { ctx.violation("missing-corner-does-not-contribute-weight-0", mk.clone(), format!("{:?}", r)); } }
    ctx.hard("cell-with-missing-neighbour", &[depth as u64, lon.to_bits(), lat.to_bits()]);
    if ctx.samples.len() < 6 && depth > 1 && ctx.evals % 5 == 0 { ctx.sample(&mk, &format!("{:?}", r)); }
  } else {
    let cls = cell_class(depth, hc);
    if cls == "base-border" || cls == "base-corner" { ctx.hard("cell-on-base-cell-border", &[depth as u64, lon.to_bits(), lat.to_bits()]); }
    else if built.is_none() { let pc = point_class(lon, lat); if !pc.is_empty() { ctx.hard(&format!("hostile:{}", pc), &[depth as u64, lon.to_bits(), lat.to_bits()]); } }
    else if let Some((_, ox, oy)) = built { if (ox - 0.5).abs() < 1e-8 || (oy - 0.5).abs() < 1e-8 { ctx.hard("quadrant-boundary", &[depth as u64, lon.to_bits(), lat.to_bits()]); } else { ctx.bump("plain-positions"); } }
  }
}

fn replay(ctx: &mut Ctx, c: &Case) {
  let depth = c.gu("depth") as u8;
  let b = if c.get("ox").is_some() { Some((c.gu("h"), c.gf("ox"), c.gf("oy"))) } else { None };
  judge(ctx, nested::get_or_create(depth), depth, c.gf("lon"), c.gf("lat"), b);
}
