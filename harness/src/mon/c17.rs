//! C17 — projection / de-projection inverse, in range, base-cell exact.
use crate::gen::*;
use crate::refm::*;
use crate::util::*;
use crate::Monitor;
use std::collections::BTreeMap;
use std::f64::consts::PI;

pub fn monitor() -> Monitor {
  Monitor { id: "C17",
    rule: "sphere side: the hostile position set of C01 (special meridians x latitudes x ulps, sphere points shifted by +-4 turns, cell-border points, pole/transition/meridian clouds); plane side: uniform (x,y) in [-8,8]x[-2,2] restricted to the projected domain, with x snapped to integers +-ulps (facet boundaries) and y snapped to {-2,-1,0,1,2} +-ulps. Non-trivial = position in a special class (pole, seam meridian, transition latitude, lon outside [0,2pi)), or plane point on a facet boundary / |y| in {1,2} (within 4 ulps).",
    assumptions: &["reference HEALPix projection (refm.rs) correct to 2e-15 in the plane (validated against mpmath by oracle_selftest)"],
    run, replay }
}

fn run(ctx: &mut Ctx, _extra: &mut BTreeMap<String, String>) {
  let shards = if ctx.thorough { 16 } else { 4 };
  let seed = ctx.seed;
  let n = match (ctx.thorough, ctx.pass.as_str()) { (false, "release") => 20000, (false, _) => 4000, (true, "release") => 4000000, (true, _) => 40000 };
  run_sharded(ctx, shards, |c, k| {
    let mut rng = Rng::new(seed, 1700 + k as u64);
    let mut pts = hostile_points(&mut rng, n);
    if k != 0 { let g = grid_points().len(); pts.drain(0..g); }
    for &(lon, lat) in pts.iter() { judge_sphere(c, lon, lat); }
    for i in 0..(n * 4) { let (x, y) = plane_point(&mut rng, i); judge_plane(c, x, y); }
    if k == 0 { rejections(c); }
  });
}

fn plane_point(rng: &mut Rng, k: usize) -> (f64, f64) {
  let (mut x, mut y) = (rng.f() * 16.0 - 8.0, rng.f() * 4.0 - 2.0);
  if k % 4 == 0 { x = nudge(rng.below(17) as f64 - 8.0, rng.below(5) as i64 - 2); }
  if k % 8 < 2 { y = nudge([-2.0, -1.0, 0.0, 1.0, 2.0][rng.below(5) as usize], rng.below(5) as i64 - 2); y = y.max(-2.0).min(2.0); }
  if k % 16 == 5 { // on a polar-cap facet border: |x - xc| = sigma
    let ya = 1.0 + rng.f(); let sigma = 2.0 - ya; let xc = (2 * rng.below(4) + 1) as f64;
    x = xc + if rng.coin() { sigma } else { -sigma }; y = if rng.coin() { ya } else { -ya };
    if rng.coin() { x = -x; }
  }
  (x.max(-8.0).min(8.0), y)
}

fn in_domain(x: f64, y: f64) -> bool {
  let ya = y.abs();
  if ya <= 1.0 { return true; }
  let sigma = 2.0 - ya; let xa = x.abs(); let xc = 2.0 * (xa / 2.0).floor().min(3.0) + 1.0;
  (xa - xc).abs() <= sigma
}

pub fn judge_sphere(ctx: &mut Ctx, lon: f64, lat: f64) {
  let mk = || Case::new("sphere").f("lon", lon).f("lat", lat);
  ctx.eval();
  let (x, y) = match catch(|| cdshealpix::proj(lon, lat)) { Ok(v) => v, Err(p) => { ctx.violation("proj-panics-on-valid-position", mk(), p); return; } };
  if !(x.abs() <= 8.0 && y.abs() <= 2.0) { ctx.violation("proj-out-of-range", mk(), format!("-> {:?}", (x, y))); return; }
  if lon != 0.0 && x != 0.0 && (x < 0.0) != (lon < 0.0) { ctx.violation("proj-x-sign-differs-from-lon-sign", mk(), format!("x={:?}", x)); }
  let xp = if x < 0.0 { x + 8.0 } else { x };
  let tol = plane_tol(lon);
  let mut best = f64::INFINITY;
  for img in ref_proj_images(lon, lat, tol) { let mut dx = (img.0 - xp).rem_euclid(8.0); if dx > 4.0 { dx -= 8.0; } let e = dx.abs().max((img.1 - y).abs()); if e < best { best = e; } }
  ctx.eval();
  ctx.worst_max("proj_vs_reference_plane_units", best);
  if best > 2.0 * tol { ctx.violation("proj-differs-from-reference-formulae", mk(), format!("-> {:?} err={:e} tol={:e}", (x, y), best, 2.0 * tol)); }
  // unproj(proj(p)) == p
  ctx.eval();
  match catch(|| cdshealpix::unproj(x, y)) {
    Err(p) => ctx.violation("unproj-panics-on-projected-point", mk(), p),
    Ok((l2, b2)) => {
      let d = dist((l2, b2), (lon, lat));
      let lim = 1e-14 * (lon.abs() / TWO_PI).max(1.0);
      ctx.worst_max("unproj(proj(p))_rad", d);
      if !(d <= lim) { ctx.violation("unproj(proj(p))-not-p", mk(), format!("xy={:?} back={:?} d={:e} lim={:e}", (x, y), (l2, b2), d, lim)); }
    }
  }
  // base cell of the projected position
  ctx.eval();
  match catch(|| cdshealpix::base_cell_from_proj_coo(x, y)) {
    Err(p) => ctx.violation("base_cell_from_proj_coo-panics", mk(), p),
    Ok(b) => {
      if b >= 12 { ctx.violation("base_cell_from_proj_coo-not-a-base-cell", mk(), format!("xy={:?} -> {}", (x, y), b)); }
      else { let (ok, ex) = contains(0, b as u64, lon, lat, tol); if !ok { ctx.violation("base_cell_from_proj_coo-wrong-cell", mk(), format!("xy={:?} -> {} excess={:e}", (x, y), b, ex)); } }
    }
  }
  let cls = point_class(lon, lat);
  if !cls.is_empty() { ctx.hard(cls, &[lon.to_bits(), lat.to_bits()]); if ctx.samples.len() < 4 && ctx.evals % 11 == 0 { ctx.sample(&mk(), &format!("proj={:?} class={}", (x, y), cls)); } } else { ctx.bump("plain-positions"); }
}

pub fn judge_plane(ctx: &mut Ctx, x: f64, y: f64) {
  if !in_domain(x, y) { return; }
  let mk = || Case::new("plane").f("x", x).f("y", y);
  ctx.eval();
  let (lon, lat) = match catch(|| cdshealpix::unproj(x, y)) { Ok(v) => v, Err(p) => { ctx.violation("unproj-panics-on-domain-point", mk(), p); return; } };
  if !(lat.abs() <= PI / 2.0 && lon.abs() <= TWO_PI + 1e-15) { ctx.violation("unproj-out-of-range", mk(), format!("-> {:?}", (lon, lat))); return; }
  if x != 0.0 && lon != 0.0 && (x < 0.0) != (lon < 0.0) { ctx.violation("unproj-lon-sign-differs-from-x-sign", mk(), format!("lon={:?}", lon)); }
  let (x2, y2) = match catch(|| cdshealpix::proj(lon, lat)) { Ok(v) => v, Err(p) => { ctx.violation("proj-panics-on-unprojected-point", mk(), p); return; } };
  let ya = y.abs();
  // a point on a polar-cap facet border has two admissible images (x = xc + sigma of one facet == x = xc' - sigma of the next): accept either
  let mut xs = vec![x];
  if ya > 1.0 {
    let sigma = 2.0 - ya; let xa = x.abs(); let xc = 2.0 * (xa / 2.0).floor().min(3.0) + 1.0; let sg = if x < 0.0 { -1.0 } else { 1.0 };
    if (xa - xc) >= sigma - 1e-13 { xs.push(sg * (xc + 2.0 - (xa - xc))); }
    if (xc - xa) >= sigma - 1e-13 { xs.push(sg * (xc - 2.0 + (xc - xa))); }
  }
  let ex = xs.iter().map(|&xx| { let mut dx = (x2 - xx).rem_euclid(8.0); if dx > 4.0 { dx -= 8.0; } dx.abs() }).fold(f64::INFINITY, f64::min);
  let ey = (y2 - y).abs();
  let sigma = if ya > 1.0 { 2.0 - ya } else { 1.0 };
  if sigma > 1e-7 {
    ctx.worst_max("proj(unproj(xy))_plane_units", ex.max(ey));
    if ex > 1e-13 || ey > 1e-13 { ctx.violation("proj(unproj(xy))-not-xy", mk(), format!("-> {:?} -> {:?} err=({:e},{:e})", (lon, lat), (x2, y2), ex, ey)); }
  } else if ey > 1e-13 { ctx.violation("proj(unproj(xy))-not-xy", mk(), format!("near pole -> {:?} -> {:?} ey={:e}", (lon, lat), (x2, y2), ey)); }
  // reference agreement of unproj
  let r = ref_unproj(x.abs().min(8.0), y);
  let r = (if x < 0.0 { -r.0 } else { r.0 }, r.1);
  ctx.eval();
  let d = dist(r, (lon, lat));
  ctx.worst_max("unproj_vs_reference_rad", d);
  if d > 1e-13 { ctx.violation("unproj-differs-from-reference-formulae", mk(), format!("-> {:?} ref {:?} d={:e}", (lon, lat), r, d)); }
  let near = |v: f64, t: f64| (v - t).abs() <= 1e-15 * t.abs().max(1.0) * 4.0;
  let facet = near(x.abs(), x.abs().round()) || near(ya, 1.0) || near(ya, 2.0) || (ya > 1.0 && { let xa = x.abs(); let xc = 2.0 * (xa / 2.0).floor().min(3.0) + 1.0; near((xa - xc).abs(), 2.0 - ya) });
  if facet { ctx.hard("plane-facet-boundary", &[x.to_bits(), y.to_bits()]); if ctx.samples.len() < 8 && ctx.evals % 13 == 0 { ctx.sample(&mk(), &format!("unproj={:?}", (lon, lat))); } }
}

fn rejections(ctx: &mut Ctx) {
  for &bad in [nudge(PI / 2.0, 1), nudge(-PI / 2.0, -1), -1.58, 2.0, f64::NAN, f64::INFINITY].iter() {
    for &lon in [0.3, -2.0, 7.5].iter() {
      ctx.eval();
      match catch(|| cdshealpix::proj(lon, bad)) { Err(_) => { ctx.bump("rejections-observed"); ctx.hard("rejected-argument", &[lon.to_bits(), bad.to_bits(), 0]); } Ok(v) => ctx.violation("proj-accepts-latitude-out-of-range", Case::new("rej-proj").f("lon", lon).f("lat", bad), format!("-> {:?}", v)) }
    }
  }
  for &bad in [nudge(2.0, 1), nudge(-2.0, -1), -2.1, 3.0, f64::NAN, f64::NEG_INFINITY].iter() {
    for &x in [0.3, -2.0, 7.5].iter() {
      ctx.eval();
      match catch(|| cdshealpix::unproj(x, bad)) { Err(_) => { ctx.bump("rejections-observed"); ctx.hard("rejected-argument", &[x.to_bits(), bad.to_bits(), 1]); } Ok(v) => ctx.violation("unproj-accepts-y-out-of-range", Case::new("rej-unproj").f("x", x).f("y", bad), format!("-> {:?}", v)) }
    }
  }
}

fn replay(ctx: &mut Ctx, c: &Case) {
  match c.mon() {
    "sphere" => judge_sphere(ctx, c.gf("lon"), c.gf("lat")),
    "plane" => judge_plane(ctx, c.gf("x"), c.gf("y")),
    "rej-proj" => { ctx.eval(); if let Ok(v) = catch(|| cdshealpix::proj(c.gf("lon"), c.gf("lat"))) { ctx.violation("proj-accepts-latitude-out-of-range", c.clone(), format!("{:?}", v)); } }
    "rej-unproj" => { ctx.eval(); if let Ok(v) = catch(|| cdshealpix::unproj(c.gf("x"), c.gf("y"))) { ctx.violation("unproj-accepts-y-out-of-range", c.clone(), format!("{:?}", v)); } }
    m => ctx.inconclusive(&format!("unknown replay monitor {}", m)),
  }
}
