//! C04 — neighbours = geometric adjacency, correctly labelled.
use crate::gen::*;
use crate::refm::*;
use crate::util::*;
use crate::Monitor;
use cdshealpix::compass_point::MainWind;
use cdshealpix::nested::{self, Layer};
use std::collections::{BTreeMap, BTreeSet};
use std::f64::consts::PI;

pub fn monitor() -> Monitor {
  Monitor { id: "C04",
    rule: "cells: every cell of depths <= 4 (quick) / <= 7 (thorough); for every deeper depth up to 29 the class sample (4 corners, border runs, second ring, centre of each of the 12 base cells: all 12x8 seam situations) plus uniform cells. Oracle is geometric: stars of 96 evenly spaced points at 2e-3 cell around the 4 reference vertices and 4 reference edge midpoints, located by the independent reference point-location; edge star => the cell stored under that ordinal, vertex star minus the two adjacent edge cells => the cell (or None) stored under that cardinal. Non-trivial = cell on a base-cell border/corner/second ring, or with fewer than 8 neighbours.",
    assumptions: &["reference point location (refm::ref_hash) — ambiguous star points (within 1e-7 cell of a border) are skipped; a cell with an unresolved star is inconclusive, not a violation"],
    run, replay }
}

fn mw(i: u8) -> MainWind { MainWind::from_index(i) }
// indices: S=0, SE=1, E=2, SW=3, C=4, NE=5, W=6, NW=7, N=8
const ORD: [u8; 4] = [1, 3, 5, 7]; // SE, SW, NE, NW  (order of ref_edge_mid)
const CARD: [u8; 4] = [0, 2, 8, 6]; // S, E, N, W     (order of ref_vertices)

fn star(p: (f64, f64), eps: f64, n: usize) -> Vec<(f64, f64)> { (0..n).map(|k| point_at(p.0, p.1, eps, (k as f64 + 0.37) * 2.0 * PI / n as f64)).collect() }

fn run(ctx: &mut Ctx, extra: &mut BTreeMap<String, String>) {
  let seed = ctx.seed;
  let small = ctx.pass != "release";
  let exh = if ctx.thorough { if small { 4 } else { 7 } } else if small { 2 } else { 4 };
  let n_cells = if ctx.thorough { if small { 200 } else { 20000 } } else if small { 20 } else { 500 };
  extra.insert("exhaustive_up_to_depth".into(), format!("{}", exh));
  let shards = 16usize;
  run_sharded(ctx, shards, |c, k| {
    let mut rng = Rng::new(seed, 400 + k as u64);
    for depth in 0..30u8 {
      let layer = nested::get_or_create(depth);
      let cells: Vec<u64> = if depth <= exh { (0..n_hash(depth)).filter(|h| (*h as usize) % shards == k).collect() }
        else { let v = sample_cells(&mut rng, depth, n_cells); v.into_iter().enumerate().filter(|(i, _)| i % shards == k).map(|(_, h)| h).collect() };
      for &h in cells.iter() { judge_cell(c, layer, depth, h); }
      if k == depth as usize % shards { rejections(c, layer, depth); }
    }
  });
  let cells = ctx.hist.get("cells-judged").copied().unwrap_or(0);
  let amb = ctx.hist.get("cells-with-unresolved-star").copied().unwrap_or(0);
  if cells > 0 && amb * 1000 > cells { ctx.inconclusive(&format!("{} of {} cells had an unresolved star (> 0.1%)", amb, cells)); }
}

pub fn judge_cell(ctx: &mut Ctx, layer: &'static Layer, depth: u8, h: u64) {
  let mk = || Case::new("cell").u("depth", depth as u64).u("h", h);
  ctx.bump("cells-judged");
  let nm = match catch(|| layer.neighbours(h, false)) { Ok(m) => m, Err(p) => { ctx.eval(); ctx.violation("neighbours-panics-on-valid-cell", mk(), p); return; } };
  let got: BTreeSet<u64> = nm.values_vec().into_iter().collect();
  let eps = 2e-3 / nside(depth) as f64;
  let vs = ref_vertices(depth, h); let es = ref_edge_mid(depth, h);
  let mut expect = BTreeSet::new();
  let mut edge_n: [Option<u64>; 4] = [None; 4];
  let mut unresolved = false;
  for k in 0..4 {
    let mut s = BTreeSet::new(); let mut located = 0;
    for p in star(es[k], eps, 96) { if let Some(g) = ref_hash(depth, p.0, p.1) { located += 1; if g != h { s.insert(g); } } }
    if s.len() != 1 || located < 48 { unresolved = true; ctx.n_oracle_ambiguous += 1; continue; }
    let g = *s.iter().next().unwrap(); edge_n[k] = Some(g); expect.insert(g);
    ctx.eval();
    let stored = nm.get(mw(ORD[k])).copied();
    if stored != Some(g) { ctx.violation("ordinal-direction-holds-wrong-cell", mk().u("dir", ORD[k] as u64), format!("dir={:?} stored {:?}, geometric neighbour across that edge is {}", mw(ORD[k]), stored, g)); }
    // the neighbour shares both end vertices of that edge: vertices adjacent to edge k: SE:(S,E) SW:(S,W) NE:(E,N) NW:(N,W)
    let ends = match k { 0 => [0usize, 1], 1 => [0, 3], 2 => [1, 2], _ => [2, 3] };
    let gv = ref_vertices(depth, g);
    for &e in ends.iter() { ctx.eval(); let dmin = gv.iter().map(|q| dist(*q, vs[e])).fold(f64::INFINITY, f64::min); if dmin > 1e-9 / nside(depth) as f64 + 1e-15 { ctx.violation("ordinal-neighbour-does-not-share-edge-vertex", mk().u("dir", ORD[k] as u64), format!("g={} vertex {} at {:e} rad", g, e, dmin)); } }
  }
  for k in 0..4 {
    let mut s = BTreeSet::new(); let mut located = 0;
    for p in star(vs[k], eps, 96) { if let Some(g) = ref_hash(depth, p.0, p.1) { located += 1; if g != h { s.insert(g); } } }
    if located < 48 { unresolved = true; ctx.n_oracle_ambiguous += 1; continue; }
    // S:(SE,SW) E:(SE,NE) N:(NE,NW) W:(SW,NW)
    let adj = match k { 0 => [0usize, 1], 1 => [0, 2], 2 => [2, 3], _ => [1, 3] };
    let mut adj_known = true;
    for a in adj.iter() { match edge_n[*a] { Some(g) => { s.remove(&g); } None => adj_known = false } }
    if !adj_known || s.len() > 1 { unresolved = true; ctx.n_oracle_ambiguous += 1; continue; }
    for &g in s.iter() { expect.insert(g); }
    ctx.eval();
    let stored = nm.get(mw(CARD[k])).copied();
    let want = s.iter().next().copied();
    if stored != want { ctx.violation("cardinal-direction-holds-wrong-cell", mk().u("dir", CARD[k] as u64), format!("dir={:?} stored {:?}, cell touching only that vertex is {:?}", mw(CARD[k]), stored, want)); }
    if let Some(g) = want { ctx.eval(); let gv = ref_vertices(depth, g); let dmin = gv.iter().map(|q| dist(*q, vs[k])).fold(f64::INFINITY, f64::min); if dmin > 1e-9 / nside(depth) as f64 + 1e-15 { ctx.violation("cardinal-neighbour-does-not-share-the-vertex", mk().u("dir", CARD[k] as u64), format!("g={} at {:e} rad", g, dmin)); } }
  }
  if unresolved { ctx.bump("cells-with-unresolved-star"); }
  else {
    ctx.eval();
    if got != expect { ctx.violation("neighbour-set-differs-from-geometric-adjacency", mk(), format!("got {:?} want {:?}", got, expect)); }
    let want_n = if depth == 0 { 6 } else { expect.len() };
    if got.len() != want_n || !(got.len() == 8 || got.len() == 7 || (depth == 0 && got.len() == 6)) { ctx.violation("neighbour-count-not-8-7-or-6", mk(), format!("{} neighbours", got.len())); }
  }
  ctx.bump(&format!("neighbour-count={}", got.len()));
  // symmetry
  for &g in got.iter() { ctx.eval(); match catch(|| layer.neighbours(g, false)) { Ok(m) => if !m.values_vec().contains(&h) { ctx.violation("neighbour-relation-not-symmetric", mk().u("g", g), format!("{} in N({}) but not conversely", g, h)); }, Err(p) => ctx.violation("neighbours-panics-on-valid-cell", mk().u("g", g), p) } }
  // neighbour(h, dir) agrees, include_center adds exactly C -> h, free function agrees
  for i in 0..9u8 {
    ctx.eval();
    let a = catch(|| layer.neighbour(h, mw(i)));
    let b = if i == 4 { Some(h) } else { nm.get(mw(i)).copied() };
    match a { Ok(a) => if a != b { ctx.violation("neighbour(h,dir)-differs-from-neighbours(h)", mk().u("dir", i as u64), format!("dir={:?} neighbour()={:?} neighbours()={:?}", mw(i), a, b)); }, Err(p) => ctx.violation("neighbour-panics-on-valid-cell", mk().u("dir", i as u64), p) }
  }
  ctx.eval();
  match catch(|| (layer.neighbours(h, true), nested::neighbours(depth, h, false))) {
    Err(p) => ctx.violation("neighbours-panics-on-valid-cell", mk(), p),
    Ok((mc, mf)) => {
      for i in 0..9u8 {
        let want = if i == 4 { Some(h) } else { nm.get(mw(i)).copied() };
        if mc.get(mw(i)).copied() != want { ctx.violation("include_center-changes-more-than-the-centre", mk().u("dir", i as u64), format!("{:?} vs {:?}", mc.get(mw(i)), want)); }
        if mf.get(mw(i)).copied() != nm.get(mw(i)).copied() { ctx.violation("free-function-neighbours-differs", mk().u("dir", i as u64), String::new()); }
      }
    }
  }
  let cls = cell_class(depth, h);
  if !cls.is_empty() { ctx.hard(&format!("cell:{}", cls), &[depth as u64, h]); }
  if got.len() < 8 { ctx.hard("cell:missing-neighbour", &[depth as u64, h]); if ctx.samples.len() < 6 && depth > 2 { ctx.sample(&mk(), &format!("{} neighbours: {:?}", got.len(), nm.entries_vec())); } }
  if cls.is_empty() && got.len() == 8 { ctx.bump("plain-cells"); }
}

fn rejections(ctx: &mut Ctx, layer: &'static Layer, depth: u8) {
  let nh = n_hash(depth);
  // the base-cell table function behind the Layer methods (public): every base cell >= 12 is rejected in the 9 directions, and its
  // answers for the 12 base cells are those of the depth-0 layer
  if depth == 0 {
    for b in 0..=255u8 { for i in 0..9u8 {
      ctx.eval();
      let r = catch(|| cdshealpix::neighbour(b, mw(i)));
      if b >= 12 { if let Ok(x) = r { ctx.violation("neighbour-accepts-cell-number>=n_hash", Case::new("bad").u("depth", 0).u("h", b as u64).u("dir", i as u64).s("fn", "cdshealpix::neighbour"), format!("base cell {} dir={:?} -> {:?}", b, mw(i), x)); } else { ctx.bump("rejections-observed"); } }
      else { match (r, catch(|| layer.neighbour(b as u64, mw(i)))) { (Ok(x), Ok(y)) => if x.map(|v| v as u64) != y { ctx.violation("neighbour(h,dir)-differs-from-neighbours(h)", Case::new("cell").u("depth", 0).u("h", b as u64).u("dir", i as u64).s("fn", "cdshealpix::neighbour"), format!("base-cell function {:?} vs Layer::neighbour {:?}", x, y)); }, (a, c2) => ctx.violation("neighbour-panics-on-valid-cell", Case::new("cell").u("depth", 0).u("h", b as u64).u("dir", i as u64), format!("{:?} / {:?}", a.err(), c2.err())) } }
    } }
  }
  let mut rng = Rng::new(ctx.seed, 41_000 + depth as u64);
  for &bad in bad_cell_numbers(&mut rng, depth).iter() {
    if bad < nh { continue; }
    ctx.eval();
    if catch(|| layer.neighbours(bad, false)).is_ok() { ctx.violation("neighbours-accepts-cell-number>=n_hash", Case::new("bad").u("depth", depth as u64).u("h", bad).u("dir", 9), String::new()); } else { ctx.bump("rejections-observed"); }
    for i in 0..9u8 {
      ctx.eval();
      match catch(|| layer.neighbour(bad, mw(i))) { Err(_) => { ctx.bump("rejections-observed"); ctx.hard("rejected-cell-number", &[depth as u64, bad, i as u64]); } Ok(r) => ctx.violation("neighbour-accepts-cell-number>=n_hash", Case::new("bad").u("depth", depth as u64).u("h", bad).u("dir", i as u64), format!("dir={:?} -> {:?}", mw(i), r)) }
    }
  }
}

fn replay(ctx: &mut Ctx, c: &Case) {
  let depth = c.gu("depth") as u8; let layer = nested::get_or_create(depth);
  match c.mon() {
    "cell" => judge_cell(ctx, layer, depth, c.gu("h")),
    "bad" => rejections(ctx, layer, depth),
    m => ctx.inconclusive(&format!("unknown replay monitor {}", m)),
  }
}
