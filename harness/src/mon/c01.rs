//! C01 — nested hash total, in range, contains the point.  C02 — hierarchical prefix.
use crate::gen::*;
use crate::refm::*;
use crate::util::*;
use crate::Monitor;
use cdshealpix::nested;
use std::collections::BTreeMap;
use std::f64::consts::PI;

pub fn monitor_c01() -> Monitor {
  Monitor { id: "C01",
    rule: "positions = special meridians k.pi/4 (k in -32..32) x special latitudes x {-2..2 ulp}^2, uniform sphere points shifted by -4..+4 turns, cell-border points (vertices/edge points of random cells of depths 0..29 computed by the reference un-projection, x {-1,0,1 ulp}^2), near-pole/near-transition/near-meridian clouds at log-uniform offsets 1e-16..1e-2; each position is hashed at all 30 depths. A position is non-trivial (and counted once) if the reference model classifies it as pole / lon<0 / |lon|>=2pi / transition latitude / meridian k.pi/4 or if it lies within 1e-12 plane units of the border of the returned cell at some depth.",
    assumptions: &["reference HEALPix projection (refm.rs) correct to 2e-15 in the plane (validated against mpmath by oracle_selftest)", "catch_unwind observes every panic of the crate"],
    run: |c, x| run(c, x, false), replay: |c, k| replay(c, k) }
}
pub fn monitor_c02() -> Monitor {
  Monitor { id: "C02",
    rule: "same positions as C01; for each position the 30 hashes h_0..h_29 are compared exactly: h_d == h_{d+1} >> 2 for every consecutive pair and h_d == h_29 >> 2(29-d). A position is non-trivial if it lies within 1e-12 plane units of a cell border at some depth or in a special class (pole, seam meridian, transition latitude, lon outside [0,2pi)).",
    assumptions: &["none beyond exact integer comparison of the crate's own outputs"],
    run: |c, x| run(c, x, true), replay: |c, k| replay(c, k) }
}

fn points(ctx: &Ctx, rng: &mut Rng) -> Vec<(f64, f64)> {
  let n = match (ctx.thorough, ctx.pass.as_str()) { (false, "release") => 48000, (false, _) => 3000, (true, "release") => 400000, (true, _) => 8000 };
  hostile_points(rng, n)
}

fn run(ctx: &mut Ctx, extra: &mut BTreeMap<String, String>, prefix_only: bool) {
  let shards = if ctx.thorough { 16 } else { 4 };
  let layers: Vec<&'static nested::Layer> = (0..30u8).map(nested::get_or_create).collect();
  let seed = ctx.seed;
  run_sharded(ctx, shards, |c, k| {
    let mut rng = Rng::new(seed, 100 + k as u64);
    let mut pts = points(c, &mut rng);
    if k != 0 { // the deterministic grid only once
      let g = grid_points().len(); pts.drain(0..g);
    }
    for &(lon, lat) in pts.iter() { judge_point(c, &layers, lon, lat, prefix_only); }
    if k == 0 && !prefix_only { rejections(c, &layers); far_longitudes(c, &layers); }
  });
  extra.insert("depths".into(), "\"0..=29 for every position\"".into());
}

pub fn judge_point(ctx: &mut Ctx, layers: &[&'static nested::Layer], lon: f64, lat: f64, prefix_only: bool) {
  let tol = plane_tol(lon);
  let mut hs = [u64::MAX; 30];
  let mut on_border = false;
  let mk = |d: u8| Case::new("hash").u("depth", d as u64).f("lon", lon).f("lat", lat);
  for depth in (0..30u8).rev() {
    let layer = layers[depth as usize];
    let h = match catch(|| layer.hash(lon, lat)) {
      Ok(h) => h,
      Err(p) => { if !prefix_only { ctx.eval(); ctx.violation("hash-panics-on-valid-position", mk(depth), p); } continue; }
    };
    hs[depth as usize] = h;
    if h >= n_hash(depth) {
      if !prefix_only { ctx.eval(); ctx.violation("hash-out-of-range", mk(depth), format!("h={} n_hash={}", h, n_hash(depth))); }
      continue;
    }
    let (ok, ex) = contains(depth, h, lon, lat, tol);
    if ex.abs() < 1e-12 { on_border = true; }
    if !prefix_only {
      ctx.eval();
      ctx.worst_max("excess_outside_cell_plane_units", ex);
      ctx.worst_max("excess_outside_in_cell_sizes", ex * nside(depth) as f64);
      if !ok { ctx.violation("point-not-in-returned-cell", mk(depth), format!("h={} excess={:e} plane units = {:e} cell sizes (tol {:e})", h, ex, ex * nside(depth) as f64, tol)); }
    }
  }
  if prefix_only {
    for d in 0..29usize {
      if hs[d] == u64::MAX || hs[d + 1] == u64::MAX { continue; }
      ctx.eval();
      if hs[d] != hs[d + 1] >> 2 { ctx.violation("prefix-broken-consecutive", mk(d as u8), format!("h_d={} h_(d+1)={} (>>2 = {})", hs[d], hs[d + 1], hs[d + 1] >> 2)); }
      if hs[29] != u64::MAX { ctx.eval(); if hs[d] != hs[29] >> (2 * (29 - d)) { ctx.violation("prefix-broken-vs-depth29", mk(d as u8), format!("h_d={} h_29={}", hs[d], hs[29])); } }
    }
  }
  // the cell number is also returned by hash_with_dxdy and hash_dxdy_v2 (public): same exact-prefix rule, each accessor with itself
  if prefix_only {
    for (name, which) in [("hash_with_dxdy", 0u8), ("hash_dxdy_v2", 1u8)].iter() {
      let mut ha = [u64::MAX; 30];
      for depth in 0..30usize { if let Ok(v) = catch(|| if *which == 0 { layers[depth].hash_with_dxdy(lon, lat).0 } else { layers[depth].hash_dxdy_v2(lon, lat).0 }) { ha[depth] = v; } }
      for d in 0..29usize { if ha[d] == u64::MAX || ha[d + 1] == u64::MAX { continue; } ctx.eval();
        if ha[d] != ha[d + 1] >> 2 { ctx.violation("prefix-broken-consecutive", mk(d as u8).s("fn", name), format!("{}: h_d={} h_(d+1)={} (>>2 = {})", name, ha[d], ha[d + 1], ha[d + 1] >> 2)); } }
    }
  }
  let cls = point_class(lon, lat);
  if !cls.is_empty() { ctx.hard(cls, &[lon.to_bits(), lat.to_bits()]); }
  if on_border { ctx.hard("on-cell-border(<1e-12)", &[lon.to_bits(), lat.to_bits()]); }
  if cls.is_empty() && !on_border { ctx.bump("plain-positions"); }
  if ctx.samples.len() < 6 && (on_border || !cls.is_empty()) && ctx.evals % 7 == 0 { ctx.sample(&mk(29), &format!("h29={} class={}{}", hs[29], cls, if on_border { " on-border" } else { "" })); }
}

/// latitudes outside [-pi/2, pi/2] must be rejected by a panic at every depth
/// longitudes far beyond "a few turns" (up to 1e9 turns): the cell must still contain the position (tolerance following the ulp of lon)
fn far_longitudes(ctx: &mut Ctx, layers: &[&'static nested::Layer]) {
  for &turns in [31.0f64, 32.5, 40.0, 100.0, 1e3, 1e6, 1e9].iter() { for &sg in [1.0, -1.0].iter() { for &(l0, lat) in [(0.3, 0.2), (2.0, 1.2), (4.0, -0.9)].iter() {
    let lon = sg * (l0 + turns * TWO_PI);
    let tol = 8e-16 * lon.abs() * 4.0 / PI + 1e-12;
    let ok = (0..30usize).step_by(7).all(|d| match catch(|| layers[d].hash(lon, lat)) { Ok(h) => h < n_hash(d as u8) && contains(d as u8, h, lon, lat, tol).0, Err(_) => false });
    ctx.eval(); if ok { ctx.hard("far-longitude", &[lon.to_bits(), lat.to_bits()]); } else { ctx.violation("point-not-in-returned-cell", Case::new("hash").u("depth", 0).f("lon", lon).f("lat", lat).s("cls", "far-longitude"), format!("{} turns away: wrong cell or panic at one of the depths 0, 7, .. 28", turns)); }
  } } }
}

fn rejections(ctx: &mut Ctx, layers: &[&'static nested::Layer]) {
  let bad = [nudge(PI / 2.0, 1), nudge(-PI / 2.0, -1), 1.58, -1.58, 2.0, -3.0, 1e10, f64::INFINITY, f64::NEG_INFINITY, f64::NAN];
  for &lat in bad.iter() {
    for &lon in [0.0, 1.0, 3.0 * PI / 4.0, -0.5, 7.0].iter() {
      for depth in 0..30u8 {
        ctx.eval();
        let c = Case::new("reject").u("depth", depth as u64).f("lon", lon).f("lat", lat);
        match catch(|| layers[depth as usize].hash(lon, lat)) {
          Err(_) => { ctx.bump("rejections-observed"); ctx.hard("lat-out-of-range", &[depth as u64, lon.to_bits(), lat.to_bits()]); }
          Ok(h) => ctx.violation("bad-latitude-mapped-to-cell", c, format!("lat={:?} -> h={}", lat, h)),
        }
        ctx.eval();
        match catch(|| nested::hash(depth, lon, lat)) {
          Err(_) => ctx.bump("rejections-observed"),
          Ok(h) => ctx.violation("bad-latitude-mapped-to-cell", Case::new("reject").u("depth", depth as u64).f("lon", lon).f("lat", lat).b("free_fn", true), format!("lat={:?} -> h={}", lat, h)),
        }
      }
    }
  }
}

fn replay(ctx: &mut Ctx, c: &Case) {
  let layers: Vec<&'static nested::Layer> = (0..30u8).map(nested::get_or_create).collect();
  match c.mon() {
    "hash" => { let prefix = ctx.prop == "C02"; judge_point(ctx, &layers, c.gf("lon"), c.gf("lat"), prefix); }
    "reject" => {
      let (d, lon, lat) = (c.gu("depth") as u8, c.gf("lon"), c.gf("lat"));
      ctx.eval();
      if let Ok(h) = catch(|| layers[d as usize].hash(lon, lat)) { ctx.violation("bad-latitude-mapped-to-cell", c.clone(), format!("h={}", h)); }
    }
    m => ctx.inconclusive(&format!("unknown replay monitor {}", m)),
  }
}
