//! Experiment (not a registered check): true smallest edge-to-opposite-edge distance of the cells of a depth, from the
//! reference geometry, to be compared with the thresholds of best_starting_depth (known finding R5).
use crate::gen::*;
use crate::refm::*;
use crate::util::*;
use crate::Monitor;
use std::collections::BTreeMap;

pub fn monitor() -> Monitor { Monitor { id: "XBSD", rule: "experiment", assumptions: &[], run, replay: |_, _| {} } }

/// point of an edge of cell h in the plane: edge k (0: S->E, 1: E->N, 2: N->W, 3: W->S), t in [0,1]
fn edge_point(depth: u8, h: u64, k: usize, t: f64) -> (f64, f64) {
  let ns = nside(depth) as f64; let (cx, cy) = cell_center_proj(depth, h);
  let vs = [(cx, cy - 1.0 / ns), (cx + 1.0 / ns, cy), (cx, cy + 1.0 / ns), (cx - 1.0 / ns, cy)];
  let (a, b) = (vs[k], vs[(k + 1) % 4]);
  ref_unproj((a.0 + (b.0 - a.0) * t).rem_euclid(8.0), (a.1 + (b.1 - a.1) * t).max(-2.0).min(2.0))
}
/// min distance between edge k and the opposite edge k+2 of cell h
pub fn width(depth: u8, h: u64, k: usize) -> f64 {
  let n = 24;
  let mut best = (f64::INFINITY, 0.5, 0.5);
  for a in 0..=n { for b in 0..=n { let (ta, tb) = (a as f64 / n as f64, b as f64 / n as f64); let d = dist(edge_point(depth, h, k, ta), edge_point(depth, h, k + 2, tb)); if d < best.0 { best = (d, ta, tb); } } }
  // refine by shrinking grid
  let mut step = 1.0 / n as f64;
  for _ in 0..30 { step *= 0.5; let (t0a, t0b) = (best.1, best.2);
    for da in -1..=1 { for db in -1..=1 { let ta = (t0a + da as f64 * step).max(0.0).min(1.0); let tb = (t0b + db as f64 * step).max(0.0).min(1.0); let d = dist(edge_point(depth, h, k, ta), edge_point(depth, h, k + 2, tb)); if d < best.0 { best = (d, ta, tb); } } } }
  best.0
}

fn run(ctx: &mut Ctx, extra: &mut BTreeMap<String, String>) {
  let thr = bsd_thresholds();
  let mut out = Vec::new();
  for depth in 0..=29u8 {
    // candidates: exhaustive for depth <= 5, otherwise cells of the polar cap base cell 0 and equatorial 4 near borders/corners
    let mut cells: Vec<u64> = Vec::new();
    if depth <= 5 { cells = (0..n_hash(depth)).collect(); } else {
      let m = nside(depth) as u32 - 1;
      let samp = |n: u32| -> Vec<u32> { let mut v: Vec<u32> = (0..=n).map(|k| ((k as u64 * m as u64) / n as u64) as u32).collect(); v.dedup(); v };
      for d0 in [0u64, 4, 8].iter() {
        for &a in samp(192).iter() { for &b in samp(192).iter() { cells.push(join(depth, *d0, a, b)); } }
        for &a in samp(8192).iter() { for e in 0..3u32.min(m) { for &(i, j) in [(a, e), (a, m - e), (e, a), (m - e, a)].iter() { cells.push(join(depth, *d0, i, j)); } } }
      }
      cells.sort(); cells.dedup();
    }
    let mut best = (f64::INFINITY, 0u64, 0usize);
    for &h in cells.iter() { for k in 0..2 { let w = width(depth, h, k); ctx.eval(); if w < best.0 { best = (w, h, k); } } }
    if depth > 5 { for _ in 0..6 { let (d0, i, j) = split(depth, best.1); let m = nside(depth) as i64 - 1; let mut moved = false;
      for di in -48i64..=48 { for dj in -3i64..=3 { for &(a, b) in [(i as i64 + di, j as i64 + dj), (i as i64 + dj, j as i64 + di)].iter() { if a < 0 || b < 0 || a > m || b > m { continue; }
        let h = join(depth, d0, a as u32, b as u32); for k in 0..2 { let w = width(depth, h, k); if w < best.0 { best = (w, h, k); moved = true; } } } } }
      if !moved { break; } } }
    let (d0, i, j) = split(depth, best.1);
    let c = ref_center(depth, best.1);
    out.push(format!("{{\"depth\": {}, \"true_min_width\": {:e}, \"threshold\": {:e}, \"ratio\": {:.6}, \"cell\": [{}, {}, {}], \"edge\": {}, \"centre\": [{:.6}, {:.6}]}}", depth, best.0, thr[depth as usize], best.0 / thr[depth as usize], d0, i, j, best.2, c.0, c.1));
  }
  ctx.hard("x", &[1]); ctx.hard("x", &[2]);
  extra.insert("widths".into(), format!("[{}]", out.join(", ")));
}
