//! Reference-data generator (not a registered check): the true smallest edge-to-opposite-edge distance W(d) of the cells of each
//! depth, from the reference geometry, with the cell, the two nearest points (p on one edge, q on the opposite edge) that realise it.
//! `hpxmon --prop XBSD --out f.json` (about 10 min on 16 cores); tools/gen_bsd_witness.py turns the result into
//! harness/src/mon/bsd_witness.rs, which C16 uses as witnesses (a cone centred just outside p with radius just above W(d) crosses
//! the whole cell and leaves the 3x3 block at depth d) and which documented the re-derivation of SMALLER_EDGE2OPEDGE_DIST (R5).
use crate::refm::*;
use crate::util::*;
use crate::Monitor;
use std::collections::BTreeMap;
use std::sync::Mutex;

pub fn monitor_c2v() -> Monitor { Monitor { id: "XC2V", rule: "reference data generator", assumptions: &[], run: run_c2v, replay: |_, _| {} } }
fn run_c2v(ctx: &mut Ctx, extra: &mut BTreeMap<String, String>) {
  let mut out = Vec::new();
  for depth in 0..=10u8 { let mut m = 0.0f64; let nb = 1u64 << (2 * depth);
    for d0 in [0u64, 4].iter() { for k in 0..nb { let h = d0 * nb + k; let c = ref_center(depth, h); for v in ref_vertices(depth, h).iter() { let d = dist(*v, c); if d > m { m = d; } } ctx.eval(); } }
    out.push(format!("[{}, {:e}, {}]", depth, m, m * nside(depth) as f64)); }
  ctx.hard("x", &[1]); ctx.hard("x", &[2]);
  extra.insert("c2v".into(), format!("[{}]", out.join(", ")));
}
pub fn monitor() -> Monitor { Monitor { id: "XBSD", rule: "reference data generator", assumptions: &[], run, replay: |_, _| {} } }

/// point of an edge of cell h: edge k (0: S->E, 1: E->N, 2: N->W, 3: W->S), t in [0,1]
pub fn edge_point(depth: u8, h: u64, k: usize, t: f64) -> (f64, f64) {
  let ns = nside(depth) as f64; let (cx, cy) = cell_center_proj(depth, h);
  let vs = [(cx, cy - 1.0 / ns), (cx + 1.0 / ns, cy), (cx, cy + 1.0 / ns), (cx - 1.0 / ns, cy)];
  let (a, b) = (vs[k % 4], vs[(k + 1) % 4]);
  ref_unproj((a.0 + (b.0 - a.0) * t).rem_euclid(8.0), (a.1 + (b.1 - a.1) * t).max(-2.0).min(2.0))
}
/// min distance between edge k and the opposite edge k+2 of cell h, with the parameters of the two nearest points
pub fn width(depth: u8, h: u64, k: usize, fine: bool) -> (f64, f64, f64) {
  let n = if fine { 24 } else { 8 };
  let mut best = (f64::INFINITY, 0.5, 0.5);
  for a in 0..=n { for b in 0..=n { let (ta, tb) = (a as f64 / n as f64, b as f64 / n as f64); let d = dist(edge_point(depth, h, k, ta), edge_point(depth, h, k + 2, tb)); if d < best.0 { best = (d, ta, tb); } } }
  let mut step = 1.0 / n as f64;
  for _ in 0..(if fine { 40 } else { 12 }) { step *= 0.5; let (t0a, t0b) = (best.1, best.2);
    for da in -1..=1 { for db in -1..=1 { let ta = (t0a + da as f64 * step).max(0.0).min(1.0); let tb = (t0b + db as f64 * step).max(0.0).min(1.0); let d = dist(edge_point(depth, h, k, ta), edge_point(depth, h, k + 2, tb)); if d < best.0 { best = (d, ta, tb); } } } }
  best
}

fn one_depth(depth: u8) -> (String, u64) {
  let m = nside(depth) as u32 - 1;
  let mut cells: Vec<u64> = Vec::new();
  if depth <= 6 { cells = (0..n_hash(depth)).collect(); } else {
    let samp = |n: u32| -> Vec<u32> { let mut v: Vec<u32> = (0..=n).map(|k| ((k as u64 * m as u64) / n as u64) as u32).collect(); v.dedup(); v };
    for d0 in [0u64, 4, 8].iter() {
      for &a in samp(96).iter() { for &b in samp(96).iter() { cells.push(join(depth, *d0, a, b)); } }
      for &a in samp(8192).iter() { for e in 0..3u32.min(m) { for &(i, j) in [(a, e), (a, m - e), (e, a), (m - e, a)].iter() { cells.push(join(depth, *d0, i, j)); } } }
    }
    cells.sort(); cells.dedup();
  }
  let mut n = 0u64;
  let mut best = (f64::INFINITY, 0u64, 0usize);
  for &h in cells.iter() { for k in 0..2 { let w = width(depth, h, k, false).0; n += 1; if w < best.0 { best = (w, h, k); } } }
  if depth > 6 { for _ in 0..40 { let (d0, i, j) = split(depth, best.1); let mm = m as i64; let mut moved = false;
    for di in -64i64..=64 { for dj in -3i64..=3 { for &(a, b) in [(i as i64 + di, j as i64 + dj), (i as i64 + dj, j as i64 + di)].iter() { if a < 0 || b < 0 || a > mm || b > mm { continue; }
      let h = join(depth, d0, a as u32, b as u32); for k in 0..2 { let w = width(depth, h, k, false).0; n += 1; if w < best.0 { best = (w, h, k); moved = true; } } } } }
    if !moved { break; } } }
  let (w, ta, tb) = width(depth, best.1, best.2, true);
  let (p, q) = (edge_point(depth, best.1, best.2, ta), edge_point(depth, best.1, best.2 + 2, tb));
  let (d0, i, j) = split(depth, best.1);
  (format!("{{\"depth\": {}, \"w\": {:e}, \"w_bits\": \"{:016x}\", \"w_times_nside\": {}, \"cell\": {}, \"d0\": {}, \"i\": {}, \"j\": {}, \"edge\": {}, \"ta\": {}, \"tb\": {}, \"p\": [\"{:016x}\", \"{:016x}\"], \"q\": [\"{:016x}\", \"{:016x}\"], \"p_f\": [{}, {}], \"q_f\": [{}, {}], \"cells_examined\": {}}}",
    depth, w, w.to_bits(), w * nside(depth) as f64, best.1, d0, i, j, best.2, ta, tb, p.0.to_bits(), p.1.to_bits(), q.0.to_bits(), q.1.to_bits(), p.0, p.1, q.0, q.1, cells.len()), n)
}

fn run(ctx: &mut Ctx, extra: &mut BTreeMap<String, String>) {
  let out: Mutex<Vec<(u8, String, u64)>> = Mutex::new(Vec::new());
  let next = std::sync::atomic::AtomicUsize::new(0);
  std::thread::scope(|s| { for _ in 0..16 { s.spawn(|| loop { let d = next.fetch_add(1, std::sync::atomic::Ordering::SeqCst); if d >= 30 { break; } let depth = (29 - d) as u8; let (line, n) = one_depth(depth); out.lock().unwrap().push((depth, line, n)); }); } });
  let mut v = out.into_inner().unwrap(); v.sort();
  for x in v.iter() { ctx.evals_n(x.2); }
  ctx.hard("x", &[1]); ctx.hard("x", &[2]);
  extra.insert("widths".into(), format!("[{}]", v.iter().map(|x| x.1.clone()).collect::<Vec<_>>().join(", ")));
}
