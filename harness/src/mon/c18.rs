//! C18 — z-order interleaving (every implementation class selectable by depth / CPU feature) and uniq numbers.
use crate::refm::*;
use crate::util::*;
use crate::Monitor;
use cdshealpix::nested;
use cdshealpix::nested::zordercurve::{get_zoc, ZOrderCurve, LARGE_ZOC_LUT, LARGE_ZOC_XOR};
use std::collections::BTreeMap;

pub fn monitor() -> Monitor {
  Monitor { id: "C18",
    rule: "for each depth 0..29 the curve returned by get_zoc(depth) (LUT build, and pdep/pext build in the bmi2 pass) and the public LARGE_ZOC_LUT/LARGE_ZOC_XOR(/LARGE_ZOC_BMI) are compared with a bit-loop interleave: depth<=8 every (i,j); deeper: byte-lane exhaustive (for each byte lane of i and of j all 256x256 values with the other bytes zero and with the other bytes random) plus random pairs; thorough adds all 2^32 pairs of depth 16. uniq: every depth x {0,1,n/2,n-1,4^k-1,random} for both notations, inverse + strict monotonicity across depths + depth>29 rejected. Non-trivial = pair with i!=0 and j!=0 (both bit streams really interleave), counted by enumeration index where the enumeration is repetition-free and by hash-set otherwise; uniq cases are counted per (depth, hash).",
    assumptions: &["bit-loop interleave/deinterleave of refm.rs is the specification"],
    run, replay }
}

fn judge_pair(ctx: &mut Ctx, z: &dyn ZOrderCurve, tag: &str, depth: u8, i: u32, j: u32) {
  let want = interleave(i, j);
  ctx.evals_n(4);
  let mk = |what: &str| Case::new("pair").s("impl", tag).u("depth", depth as u64).u("i", i as u64).u("j", j as u64).s("what", what);
  // one guarded call for the four methods (a panic on a legal value is a violation, not a harness failure)
  let (h, gi, gj, hi, hj) = match catch(|| { let ij = z.h2ij(want); (z.ij2h(i, j), z.ij2i(ij), z.ij2j(ij), z.i02h(i), z.oj2h(j)) }) {
    Ok(t) => t,
    Err(p) => { ctx.violation("z-order-curve-panics-on-a-legal-value", mk("panic"), p); return; }
  };
  if h != want { ctx.violation("ij2h-differs-from-bit-interleave", mk("ij2h"), format!("got {:#x} want {:#x}", h, want)); }
  if depth > 0 && (gi != i || gj != j) { ctx.violation("h2ij-does-not-invert", mk("h2ij"), format!("h={:#x} -> ({}, {})", want, gi, gj)); }
  if hi != interleave(i, 0) { ctx.violation("i02h-differs", mk("i02h"), format!("got {:#x} want {:#x}", hi, interleave(i, 0))); }
  if hj != interleave(0, j) { ctx.violation("oj2h-differs", mk("oj2h"), format!("got {:#x} want {:#x}", hj, interleave(0, j))); }
}

fn lanes(depth: u8) -> u32 { ((depth as u32) + 7) / 8 }

fn run_depth(ctx: &mut Ctx, rng: &mut Rng, depth: u8, z: &dyn ZOrderCurve, tag: &str, n_random: u64) {
  let lim = 1u64 << depth; let mask = (lim - 1) as u32;
  if depth == 0 {
    ctx.evals_n(2);
    if z.ij2h(0, 0) != 0 || z.i02h(0) != 0 { ctx.violation("depth0-curve-not-zero", Case::new("pair").s("impl", tag).u("depth", 0).u("i", 0).u("j", 0).s("what", "ij2h"), String::new()); }
    return;
  }
  if depth <= 8 {
    for i in 0..lim as u32 { for j in 0..lim as u32 { judge_pair(ctx, z, tag, depth, i, j); } }
    ctx.enumerated(&format!("{}:exhaustive-small-depth", tag), (lim - 1) * (lim - 1));
    return;
  }
  let nl = lanes(depth);
  for li in 0..nl { for lj in 0..nl {
    for fill in 0..2 {
      let (bi, bj) = if fill == 0 { (0u32, 0u32) } else { (rng.next() as u32, rng.next() as u32) };
      for a in 0..256u32 { for b in 0..256u32 {
        let i = ((bi & !(0xFF << (8 * li))) | (a << (8 * li))) & mask;
        let j = ((bj & !(0xFF << (8 * lj))) | (b << (8 * lj))) & mask;
        judge_pair(ctx, z, tag, depth, i, j);
        if i != 0 && j != 0 { ctx.hard(&format!("{}:byte-lane", tag), &[depth as u64, i as u64, j as u64]); }
      }}
    }
  }}
  // boundary values of each coordinate: 0, 1, all ones, all ones - 1, and 2^p - 1, 2^p, 2^p + 1 for every p (all pairs)
  let mut bv: Vec<u32> = vec![0, 1, mask, mask.wrapping_sub(1) & mask];
  for p in 1..depth as u32 { for o in [-1i64, 0, 1].iter() { let v = (1i64 << p) + o; if v >= 0 && (v as u64) < lim { bv.push(v as u32); } } }
  bv.sort(); bv.dedup();
  for &i in bv.iter() { for &j in bv.iter() { judge_pair(ctx, z, tag, depth, i, j); if i != 0 && j != 0 { ctx.hard(&format!("{}:boundary-values", tag), &[depth as u64, i as u64, j as u64]); } } }
  for _ in 0..n_random {
    let (i, j) = (rng.next() as u32 & mask, rng.next() as u32 & mask);
    judge_pair(ctx, z, tag, depth, i, j);
    if i != 0 && j != 0 { ctx.hard(&format!("{}:random", tag), &[depth as u64, i as u64, j as u64]); }
  }
}

fn run(ctx: &mut Ctx, extra: &mut BTreeMap<String, String>) {
  let seed = ctx.seed;
  let thorough = ctx.thorough;
  let small = ctx.pass == "debug";
  let n_random: u64 = if small { 20_000 } else if thorough { 1_000_000 } else { 100_000 };
  let tag: &'static str = if cfg!(target_feature = "bmi2") { "get_zoc[bmi2]" } else { "get_zoc[lut]" };
  extra.insert("implementation_selected_by_get_zoc".into(), jstr(tag));
  // 30 depths over shards
  run_sharded(ctx, 16, |c, k| {
    let mut rng = Rng::new(seed, 1800 + k as u64);
    for depth in 0..30u8 {
      if depth as usize % 16 != k { continue; }
      let z = get_zoc(depth);
      run_depth(c, &mut rng, depth, z, tag, n_random);
      c.bump(&format!("depth-{:02}-done", depth));
    }
    // the public statics, full 32-bit domain
    if k == 14 { run_depth(c, &mut rng, 32, &LARGE_ZOC_LUT, "LARGE_ZOC_LUT", n_random); }
    if k == 15 { run_depth(c, &mut rng, 32, &LARGE_ZOC_XOR, "LARGE_ZOC_XOR", n_random); }
    #[cfg(target_feature = "bmi2")]
    { if k == 13 { run_depth(c, &mut rng, 32, &cdshealpix::nested::zordercurve::LARGE_ZOC_BMI, "LARGE_ZOC_BMI", n_random); } }
    if k == 0 { uniq(c, &mut rng); }
  });
  if thorough && !small {
    // every pair of depth 16 (2^32), 16 shards over i
    let z16 = get_zoc(16);
    run_sharded(ctx, 16, |c, k| {
      let mut bad = 0u64;
      for i in ((k as u32) << 12)..(((k as u32) + 1) << 12) {
        for j in 0..65536u32 {
          let want = interleave_fast(i, j);
          let h = z16.ij2h(i, j);
          let ij = z16.h2ij(want);
          if h != want || z16.ij2i(ij) != i || z16.ij2j(ij) != j { bad += 1; if bad < 4 { judge_pair(c, z16, tag, 16, i, j); } }
        }
      }
      c.evals_n(2 * (1u64 << 28));
      c.enumerated("depth16-all-pairs", (1u64 << 28) - 4096 - 65536 / 16);
      if bad > 0 { c.bump_n("depth16-bad-pairs", bad); }
    });
    extra.insert("depth16_exhaustive_pairs".into(), format!("{}", 1u64 << 32));
  }
}

/// faster reference interleave (magic-number spreading), itself cross-checked against the bit loop on every byte-lane value
fn spread(x: u32) -> u64 {
  let mut x = x as u64;
  x = (x | (x << 16)) & 0x0000FFFF0000FFFF;
  x = (x | (x << 8)) & 0x00FF00FF00FF00FF;
  x = (x | (x << 4)) & 0x0F0F0F0F0F0F0F0F;
  x = (x | (x << 2)) & 0x3333333333333333;
  x = (x | (x << 1)) & 0x5555555555555555;
  x
}
fn interleave_fast(i: u32, j: u32) -> u64 { spread(i) | (spread(j) << 1) }

fn uniq(ctx: &mut Ctx, rng: &mut Rng) {
  // self-check of the fast reference against the bit loop
  for _ in 0..200000 { let (i, j) = (rng.next() as u32, rng.next() as u32); if interleave_fast(i, j) != interleave(i, j) { ctx.inconclusive("fast reference interleave disagrees with bit loop"); return; } }
  let mut prev_max: Option<u64> = None; let mut prev_max_ivoa: Option<u64> = None;
  for depth in 0..30u8 {
    let nh = n_hash(depth);
    let mut hs: Vec<u64> = vec![0, 1, nh / 2, nh - 1, nh - 2, nh / 12, nh / 12 - 1];
    for k in 0..=depth { hs.push((1u64 << (2 * k)) - 1); hs.push(1u64 << (2 * k)); }
    for _ in 0..3000 { hs.push(rng.below(nh)); }
    let mut mn = u64::MAX; let mut mx = 0u64; let mut mni = u64::MAX; let mut mxi = 0u64;
    for &h in hs.iter() {
      if h >= nh { continue; }
      ctx.evals_n(2);
      let mk = || Case::new("uniq").u("depth", depth as u64).u("h", h);
      match catch(|| (nested::to_uniq(depth, h), nested::to_uniq_ivoa(depth, h))) {
        Err(p) => ctx.violation("to_uniq-panics-on-valid-input", mk(), p),
        Ok((u, ui)) => {
          let b = nested::from_uniq(u); let bi = nested::from_uniq_ivoa(ui);
          if b != (depth, h) { ctx.violation("from_uniq-does-not-invert", mk(), format!("u={} -> {:?}", u, b)); }
          if bi != (depth, h) { ctx.violation("from_uniq_ivoa-does-not-invert", mk(), format!("u={} -> {:?}", ui, bi)); }
          if ui != 4 * (1u64 << (2 * depth)) + h { ctx.violation("to_uniq_ivoa-not-4*4^depth+hash", mk(), format!("u={}", ui)); }
          if u != 16 * (1u64 << (2 * depth)) + h { ctx.violation("to_uniq-not-sentinel|hash", mk(), format!("u={}", u)); }
          mn = mn.min(u); mx = mx.max(u); mni = mni.min(ui); mxi = mxi.max(ui);
          let l = nested::get_or_create(depth);
          if l.to_uniq(h) != u || l.to_uniq_ivoa(h) != ui { ctx.violation("Layer::to_uniq-differs-from-free-fn", mk(), String::new()); }
          ctx.hard("uniq", &[depth as u64, h]);
        }
      }
    }
    // strictly monotone across depths => distinct (depth, hash) never collide
    if let Some(p) = prev_max { ctx.eval(); if !(p < mn) { ctx.violation("uniq-ranges-of-consecutive-depths-overlap", Case::new("uniq").u("depth", depth as u64).u("h", 0), format!("max(depth-1)={} min(depth)={}", p, mn)); } }
    if let Some(p) = prev_max_ivoa { ctx.eval(); if !(p < mni) { ctx.violation("uniq-ivoa-ranges-of-consecutive-depths-overlap", Case::new("uniq").u("depth", depth as u64).u("h", 0), format!("max(depth-1)={} min(depth)={}", p, mni)); } }
    prev_max = Some(mx); prev_max_ivoa = Some(mxi);
    if depth % 10 == 3 { ctx.sample(&Case::new("uniq").u("depth", depth as u64).u("h", nh - 1), &format!("to_uniq={} ivoa={}", nested::to_uniq(depth, nh - 1), nested::to_uniq_ivoa(depth, nh - 1))); }
  }
  for bad in [30u8, 31, 32, 64, 128, 255].iter() {
    ctx.evals_n(3);
    if let Ok(u) = catch(|| nested::to_uniq(*bad, 0)) { ctx.violation("to_uniq-accepts-depth>29", Case::new("uniq-bad").u("depth", *bad as u64), format!("-> {}", u)); } else { ctx.bump("rejections-observed"); }
    if let Ok(u) = catch(|| nested::to_uniq_ivoa(*bad, 0)) { ctx.violation("to_uniq_ivoa-accepts-depth>29", Case::new("uniq-bad").u("depth", *bad as u64), format!("-> {}", u)); } else { ctx.bump("rejections-observed"); }
    if catch(|| { get_zoc(*bad); }).is_ok() { ctx.violation("get_zoc-accepts-depth>29", Case::new("uniq-bad").u("depth", *bad as u64), String::new()); } else { ctx.bump("rejections-observed"); }
  }
  ctx.sample(&Case::new("pair").s("impl", "get_zoc").u("depth", 29).u("i", 0x1234567).u("j", 0x0FEDCBA9), &format!("ij2h={:#x}", get_zoc(29).ij2h(0x1234567, 0x0FEDCBA9)));
}

fn replay(ctx: &mut Ctx, c: &Case) {
  match c.mon() {
    "pair" => {
      let depth = c.gu("depth") as u8; let imp = c.get("impl").unwrap_or("");
      let (i, j) = (c.gu("i") as u32, c.gu("j") as u32);
      if imp.starts_with("get_zoc") { judge_pair(ctx, get_zoc(depth.min(29)), imp, depth, i, j); }
      else if imp == "LARGE_ZOC_LUT" { judge_pair(ctx, &LARGE_ZOC_LUT, imp, depth, i, j); }
      else { judge_pair(ctx, &LARGE_ZOC_XOR, imp, depth, i, j); }
    }
    "uniq" | "uniq-bad" => { let mut rng = Rng::new(ctx.seed, 1800); uniq(ctx, &mut rng); }
    m => ctx.inconclusive(&format!("unknown replay monitor {}", m)),
  }
}
