//! C13 — elliptical-cone coverage: centre kept, circular case sound, tight, guarded.
use crate::bm::*;
use crate::gen::*;
use crate::mon::cone::thresholds;
use crate::refm::*;
use crate::util::*;
use crate::Monitor;
use cdshealpix::nested;
use std::collections::BTreeMap;
use std::f64::consts::PI;

pub fn monitor() -> Monitor {
  Monitor { id: "C13",
    rule: "elliptical cones: centres as for C05 (sphere, poles, seams, transition latitude, exact cell centres), semi-major axis a from 1e-10 rad to 0.999 pi/2 (log-uniform, 1e-3..40 cell sizes of the query depth, radii aimed at (1 +- u) x each starting-depth threshold), b/a in [0.05, 1] with one third exactly circular, position angle in [0, pi), one ellipse in 10 (when the search succeeds) thin with a numerically singular planar covariance and centred exactly on a cell centre of a depth <= the working depth, one in 12 with axes 1e-160..1e-9 rad centred on / a few ulps off a cell centre of depth 20..29, query depth 0..29, delta 0..3 (depth+delta <= 29), a/cell <= 40. Oracles: no panic, well formed, centre cell covered, every cell centre within a + 2 x 1.08/nside(its depth), circular => the C05 witness oracle (>= 160 points strictly inside), a >= pi/2 panics for both entry points. Non-trivial = ellipse containing a pole / touching a seam meridian or the transition latitude / a within 5% of a threshold / delta > 0 / circular.",
    assumptions: &["Layer::hash (C01) locates centre and witnesses", "largest centre-to-vertex distance per depth from refm::cell_radius_bound (measured)"],
    run, replay }
}

pub fn gen_ell(rng: &mut Rng) -> Case {
  let thr = thresholds();
  loop {
    let mut depth = rng.below(30) as u8;
    let dd = if rng.below(3) == 0 { (rng.below(4) as u8).min(29 - depth) } else { 0 };
    let cell = 1.0 / nside(depth + dd) as f64;
    let a = match rng.below(7) {
      0 => cell * rng.log_uniform(1e-3, 1.0),
      1 => cell * rng.range(0.2, 3.2),
      2 => cell * 40.0 * rng.f(),
      3 => rng.log_uniform(1e-10, PI / 2.0),
      4 | 5 => { let d = 1 + rng.below(29) as usize; let u = *rng.pick(&[1e-12, 1e-6, 1e-3, 1e-2, 3e-2, 5e-2]); thr[d] * if rng.below(4) == 0 { 1.0 + u } else { 1.0 - u } }
      _ => rng.range(0.3, PI / 2.0),
    }.max(1e-10).min(PI / 2.0 * 0.999);
    let a0 = a; let _ = a0;
    if a / cell > 40.0 { let mut d = 0u8; while d < 29 && a * nside(d + 1) as f64 <= 40.0 { d += 1; } if a * nside(d) as f64 > 40.0 { continue; } depth = d.saturating_sub(dd); }
    let circ = rng.below(3) == 0;
    // semi-minor axis: the statement says b in (0, a]: mostly 0.05..1 of a, one ellipse in 6 much thinner (ratio down to 1e-12)
    let mut a = a;
    let mut b = if circ { a } else if rng.below(6) == 0 { a * rng.log_uniform(1e-12, 0.05) } else { a * rng.range(0.05, 1.0) };
    let pa = rng.f() * PI;
    let (mut lon, mut lat) = cone_center(rng);
    if rng.below(10) == 0 { let d = rng.below(30) as u8; let c = nested::get_or_create(d).center(rng.below(n_hash(d))); lon = c.0; lat = c.1; }
    // sizes far below the deepest cell (down to 1e-20 rad), centred on / a few ulps off the centre of a cell of the query depth
    if rng.below(12) == 0 { depth = 20 + rng.below(10) as u8; let c = nested::get_or_create(depth).center(rng.below(n_hash(depth)));
      lon = crate::util::nudge(c.0, rng.below(5) as i64 - 2); lat = crate::util::nudge(c.1, rng.below(5) as i64 - 2).max(-PI / 2.0).min(PI / 2.0);
      // (one in three: down to 1e-160 rad, where products of the axes underflow)
      a = if rng.below(3) == 0 { rng.log_uniform(1e-160, 1e-20) } else { rng.log_uniform(1e-20, 1e-9) }; b = if rng.coin() { a } else { a * rng.log_uniform(1e-9, 1.0) };
      return Case::new("ell").u("depth", depth as u64).u("dd", 0).f("lon", lon).f("lat", lat).f("a", a).f("b", b).f("pa", pa).u("s", rng.next() >> 1).s("cls", &format!("tiny:b/a~1e{}", (b / a).log10().floor() as i32)); }
    // thin ellipses whose planar covariance matrix is numerically singular, centred exactly on the centre of a cell of a depth <= the
    // working depth (a cell the descent visits): (a, pa) pairs for which sigx2.sigy2 - (rho.sigx.sigy)^2, evaluated in f64 the way
    // the crate does for its thinnest representable ellipse, cancels to exactly 0 (found by search, pa within 1.5 deg of pi/4 or 3pi/4)
    if rng.below(10) == 0 {
      let base = if rng.coin() { PI / 4.0 } else { 3.0 * PI / 4.0 };
      for _ in 0..400_000 { let pa2 = base + (rng.f() - 0.5) * 0.052; if singular_cov(a, pa2) {
        let k = rng.below(depth as u64 + dd as u64 + 1) as u8; let c = nested::get_or_create(k).center(rng.below(n_hash(k)));
        let b2 = a * rng.log_uniform(1e-12, 1.4e-8);
        return Case::new("ell").u("depth", depth as u64).u("dd", dd as u64).f("lon", c.0).f("lat", c.1).f("a", a).f("b", b2).f("pa", pa2).u("s", rng.next() >> 1).s("cls", "singular-covariance@cell-centre");
      } }
    }
    // centre given with a longitude of thousands to 1e13 turns (|lon| log-uniform in 1e3 .. 1e14 rad), depth coarse enough for the rounding
    // of the longitude itself (4e-16 |lon|) to stay below 1e-3 cell; sizes from far below a cell up to 30 cells
    if rng.below(30) == 0 {
      let big = rng.log_uniform(1e3, 1e14) * if rng.coin() { 1.0 } else { -1.0 };
      let tolp = 4e-16 * big.abs();
      let mut d = depth.min(29 - dd); while d > 0 && (1.0 / nside(d + dd) as f64) < 1e3 * tolp { d -= 1; }
      if (1.0 / nside(d + dd) as f64) >= 1e3 * tolp {
        let cellq = 1.0 / nside(d + dd) as f64;
        let a2 = (match rng.below(3) { 0 => rng.log_uniform(1e-10, cellq), 1 => cellq * rng.range(0.2, 30.0), _ => cellq * rng.log_uniform(1e-3, 30.0) }).max(1e-10).min(1.5);
        let b2 = if rng.below(3) == 0 { a2 } else { a2 * rng.range(0.05, 1.0) };
        let (_, lat2) = cone_center(rng);
        return Case::new("ell").u("depth", d as u64).u("dd", dd as u64).f("lon", big).f("lat", lat2).f("a", a2).f("b", b2).f("pa", pa).u("s", rng.next() >> 1).s("cls", "centre-longitude-beyond-1e3-rad");
      }
    }
    // thin ellipses centred on (or within 1e-12..1e-7 rad of) a pole whose major axis lies along a diagonal meridian pi/4 + k.pi/2 of a polar
    // base cell (the corner cells of the base cell have their centres on that meridian at every depth: a chain of cell centres exactly on the
    // major axis, where a quadratic-form point-in-ellipse test cancels); large ellipses at moderate depths
    if rng.below(32) == 0 {
      let d2 = 5 + rng.below(5) as u8; let a2 = if rng.coin() { rng.range(0.3, 1.5) } else { rng.range(1.2, 1.56) };
      let south = rng.coin(); let off = if rng.coin() { 0.0 } else { rng.log_uniform(1e-12, 1e-7) };
      let lat2 = if south { -PI / 2.0 + off } else { PI / 2.0 - off };
      let lon2 = if rng.coin() { 0.0 } else { rng.f() * TWO_PI };
      let pa2 = (PI / 4.0 + (rng.below(4) as f64) * PI / 2.0 - lon2 + if rng.below(3) == 0 { (rng.f() - 0.5) * 1e-6 } else { 0.0 }).rem_euclid(PI);
      let mut b2 = a2 * rng.log_uniform(1e-12, 1e-6);
      let ddq = if rng.below(4) == 0 { 2u8 } else { 0 };
      // half of them are not thin: b = r_k + f (a - r_k), f in 1e-8 .. 1e-6, r_k one of the per-depth bounding radii of the descent (the
      // "fully inside" test works on the ellipse shrunk by r_k: thin again, with cell centres exactly on its major axis)
      let mut cls = "thin-on-a-pole-along-a-diagonal-meridian";
      if rng.coin() { let (a2, d2) = (rng.range(1.3, 1.56), 8 + rng.below(2) as u8);
        let ds = if cdshealpix::has_best_starting_depth(a2) { cdshealpix::best_starting_depth(a2) } else { 0 };
        if ds < d2 + ddq { if let Ok(arr) = catch(|| cdshealpix::largest_center_to_vertex_distances_with_radius(ds, d2 + ddq + 1, lon2, lat2, a2)) {
          let cands: Vec<f64> = arr.iter().cloned().filter(|&x| x < a2 * 0.5 && x > 0.0).collect();
          if !cands.is_empty() { let r = if rng.below(4) != 0 && cands.len() >= 4 { cands[cands.len() - 2 - rng.below(3) as usize] } else { *rng.pick(&cands) }; b2 = r + rng.log_uniform(8e-8, 3e-7) * (a2 - r);
            return Case::new("ell").u("depth", d2 as u64).u("dd", ddq as u64).f("lon", lon2).f("lat", lat2).f("a", a2).f("b", b2).f("pa", pa2).u("s", rng.next() >> 1).s("cls", "on-a-pole-along-a-diagonal-meridian,b-just-above-a-bounding-radius"); cls = "on-a-pole-along-a-diagonal-meridian,b-just-above-a-bounding-radius"; } } } }
      return Case::new("ell").u("depth", d2 as u64).u("dd", ddq as u64).f("lon", lon2).f("lat", lat2).f("a", a2).f("b", b2).f("pa", pa2).u("s", rng.next() >> 1).s("cls", cls);
    }
    // semi-minor axis a hair above one of the bounding-cone radii of the descent (the crate's own per-depth cell radius bounds for this
    // ellipse, public helper): "cell fully inside" is decided on an ellipse shrunk by that radius, whose minor axis is then ~0
    if rng.below(8) == 0 && depth + dd > 0 {
      let ds = if cdshealpix::has_best_starting_depth(a) { cdshealpix::best_starting_depth(a) } else { 0 };
      if ds < depth + dd { if let Ok(ds_arr) = catch(|| cdshealpix::largest_center_to_vertex_distances_with_radius(ds, depth + dd + 1, lon, lat, a)) {
        let cands: Vec<f64> = ds_arr.iter().cloned().filter(|&x| x < a && x > 0.0).collect();
        if !cands.is_empty() { let r = *rng.pick(&cands); let b2 = (r * (1.0 + rng.log_uniform(1e-16, 1e-7))).min(a);
          return Case::new("ell").u("depth", depth as u64).u("dd", dd as u64).f("lon", lon).f("lat", lat).f("a", a).f("b", b2).f("pa", pa).u("s", rng.next() >> 1).s("cls", "b-just-above-a-bounding-radius-of-the-descent"); }
      } }
    }
    return Case::new("ell").u("depth", depth as u64).u("dd", dd as u64).f("lon", any_turn(rng, lon)).f("lat", lat).f("a", a).f("b", b).f("pa", pa).u("s", rng.next() >> 1).s("cls", &format!("b/a~1e{}", (b / a).log10().floor() as i32));
  }
}

/// f64 evaluation of the determinant of the planar covariance matrix of the thinnest ellipse (b = 1.5e-8 a) of semi-major axis a and
/// position angle pa, in the order of operations of `Ellipse::from_oriented`: true iff it cancels to exactly 0
fn singular_cov(a: f64, pa: f64) -> bool {
  let (sa, sb) = (a.sin(), (a * 1.5e-8).sin());
  let (st, ct) = (PI / 2.0 - pa).sin_cos();
  let (a2, b2, s2, c2) = (sa * sa, sb * sb, st * st, ct * ct);
  let sigx2 = a2 * c2 + b2 * s2; let sigy2 = a2 * s2 + b2 * c2; let rho = ct * st * (a2 - b2);
  sigx2 * sigy2 - rho * rho == 0.0
}

fn run(ctx: &mut Ctx, extra: &mut BTreeMap<String, String>) {
  let seed = ctx.seed;
  let small = ctx.pass != "release";
  let n = if ctx.thorough { if small { 6000 } else { 3_000_000 } } else if small { 600 } else { 24_000 };
  extra.insert("ellipses".into(), format!("{}", n));
  let _ = thresholds();
  run_sharded(ctx, 16, |c, k| {
    let mut rng = Rng::new(seed, 1300 + k as u64);
    for _ in 0..n / 16 { let case = gen_ell(&mut rng); judge(c, &case); }
    if k == 0 { guards(c); }
  });
}

pub fn judge(ctx: &mut Ctx, c: &Case) {
  let (depth, dd, lon, lat, a, b, pa) = (c.gu("depth") as u8, c.gu("dd") as u8, c.gf("lon"), c.gf("lat"), c.gf("a"), c.gf("b"), c.gf("pa"));
  let mut rng = Rng::new(c.gu("s"), 13);
  let thr = thresholds();
  // hostile call history (one ellipse in 6): a sibling call differing in one argument comes first (see the cone monitor)
  if c.gu("s") % 6 == 1 {
    let (l2, b2, a2, m2, p2, d2) = match (c.gu("s") / 6) % 6 {
      0 => (rng.f() * TWO_PI, lat, a, b, pa, depth),
      1 => (lon, -lat, a, b, pa, depth),
      2 => (lon, lat, a, b, (pa + PI / 2.0) % PI, depth),
      3 => (lon, lat, a, a, pa, depth),
      4 => (lon, lat, (a * 1.5).min(1.5), b, pa, depth),
      _ => (lon, lat, a, b, pa, if depth > 0 { depth - 1 } else { depth + 1 }),
    };
    let _ = catch(|| if dd == 0 || d2 + dd > 29 { nested::elliptical_cone_coverage(d2, l2, b2, a2, m2, p2) } else { nested::elliptical_cone_coverage_custom(d2, dd, l2, b2, a2, m2, p2) });
    ctx.hard("ellipse:judged-right-after-a-sibling-call(one-argument-changed)", &[depth as u64, lon.to_bits(), lat.to_bits(), a.to_bits(), b.to_bits()]);
  }
  ctx.eval();
  precall(c);
  let res = catch(|| if dd == 0 { nested::elliptical_cone_coverage(depth, lon, lat, a, b, pa) } else { nested::elliptical_cone_coverage_custom(depth, dd, lon, lat, a, b, pa) });
  postcall();
  let bm = match res { Ok(x) => x, Err(p) => { ctx.violation("elliptical-cone-coverage-panics-on-valid-input", c.clone().s("at", panic_loc(&p)), p); return; } };
  let c09 = ctx.prop == "C09";
  let cells = match walk(&bm, 100_000) { Ok(_) => cells_of(&bm), Err(e) => { ctx.violation(if c09 { "malformed-bmoc-from-elliptical_cone_coverage" } else { "elliptical-cone-coverage-result-not-well-formed" }, c.clone(), e); return; } };
  if bm.get_depth_max() != depth { ctx.violation("elliptical-cone-coverage-depth_max-not-the-query-depth", c.clone(), format!("{}", bm.get_depth_max())); }
  let layer = nested::get_or_create(depth);
  let cover = Cover::new(depth, &cells);
  // centre cell
  ctx.eval();
  let hc = layer.hash(lon, lat);
  if cover.get(depth, hc).is_none() { ctx.violation("ellipse-centre-cell-missing", c.clone(), format!("cell {} of the centre not covered; {} cells: {}", hc, cells.len(), fmt_cells(&cells))); }
  // tightness (a longitude of many turns is itself known to a few ulps only: 4e-16 |lon| rad of positional slack, 0 within 50 rad)
  let tol_pos = if lon.abs() > 50.0 { 4e-16 * lon.abs() } else { 0.0 };
  for &(d, h, _) in cells.iter() {
    ctx.eval();
    let dc = dist(ref_center(d, h), (lon, lat));
    let lim = a + 2.0 * cell_radius_bound(d) + 8.0 * tol_pos;
    ctx.worst_max("(centre_distance - a) / cell_radius_bound", (dc - a) / cell_radius_bound(d));
    if dc > lim * (1.0 + 1e-12) { ctx.violation("reported-cell-farther-than-a+2-cell-radii", c.clone().u("cd", d as u64).u("ch", h), format!("cell {}/{} centre at {:e} > {:e}", d, h, dc, lim)); break; }
    // an entry coarser than the query depth stands for all its sub-cells of the query depth: the four at its corners are judged as cells
    // of the query depth (the BMOC is a set of cells of that depth)
    if d < depth {
      let sh = 2 * (depth - d) as u32; let mask = (1u64 << sh) - 1;
      let limq = a + 2.0 * cell_radius_bound(depth) + 8.0 * tol_pos;
      for (nm, sub) in [("S", 0u64), ("E", mask & 0x5555_5555_5555_5555), ("W", mask & 0xAAAA_AAAA_AAAA_AAAA), ("N", mask)].iter() {
        ctx.eval();
        let hq = (h << sh) | sub; let dq = dist(ref_center(depth, hq), (lon, lat));
        ctx.worst_max("(sub-cell centre_distance - a) / cell_radius_bound(query depth)", (dq - a) / cell_radius_bound(depth));
        if dq > limq * (1.0 + 1e-12) { ctx.violation("reported-cell-farther-than-a+2-cell-radii", c.clone().u("cd", d as u64).u("ch", h).s("sub", nm), format!("entry {}/{} stands for the cell {}/{} ({} corner) whose centre is at {:e} > a + 2 cell radii = {:e} ({:.1} cell radii beyond a); {} entries", d, h, depth, hq, nm, dq, limq, (dq - a) / cell_radius_bound(depth), cells.len())); break; }
      }
    }
  }
  let tl = trans_lat();
  let dstart = if a < thr[0] { Some((0..30).rev().find(|&k| a < thr[k]).unwrap_or(0)) } else { None };
  let ratio = dstart.map(|d| a / thr[d]).unwrap_or(f64::NAN);
  let dl = { let m = lon.rem_euclid(PI / 2.0); m.min(PI / 2.0 - m) };
  // circular case: the cone oracle
  if a == b {
    let mut missed = None; let mut n_wit = 0;
    for k in 0..160 {
      let (rho, th) = if k < 64 { (a * (1.0 - 1e-6), (k as f64 + 0.5) * TWO_PI / 64.0) } else { (match k % 3 { 0 => a * rng.f().sqrt(), 1 => a * (1.0 - 1e-3 * rng.f()), _ => a * (1.0 - rng.log_uniform(1e-7, 0.5)) }, rng.f() * TWO_PI) };
      let p = point_at(lon, lat, rho, th);
      let d = dist(p, (lon, lat));
      if !(d <= a * (1.0 - 1e-9) - 8.0 * tol_pos) { continue; }
      n_wit += 1;
      let h = match catch(|| layer.hash(p.0, p.1)) { Ok(h) => h, Err(_) => continue };
      if cover.get(depth, h).is_none() && missed.is_none() { missed = Some((p, h, d)); }
    }
    ctx.evals_n(n_wit);
    if let Some((p, h, d)) = missed {
      let in_block = match dstart { Some(ds) => { let ls = nested::get_or_create(ds as u8); let blk = ls.neighbours(ls.hash(lon, lat), true).values_vec(); blk.contains(&ls.hash(p.0, p.1)) } _ => true };
      ctx.violation("circular-ellipse-misses-a-cell-touched-by-the-cone", c.clone().f("ratio", ratio).f("dlon_seam", dl).b("in_start_block", in_block), format!("witness {:?} at {:e} rad (a={:e}, a/cell={:.3}) in cell {} not covered; {} cells; start depth {:?} a/threshold={:.6}", p, d, a, a * nside(depth) as f64, h, cells.len(), dstart, ratio));
    }
  }
  let fp = [depth as u64, dd as u64, lon.to_bits(), lat.to_bits(), a.to_bits(), b.to_bits(), pa.to_bits()];
  let mut hard = false;
  if lat.abs() + a >= PI / 2.0 { ctx.hard("ellipse:contains-a-pole", &fp); hard = true; }
  if ratio > 0.95 && ratio < 1.0 { ctx.hard("ellipse:a-within-5%-below-a-threshold", &fp); hard = true; }
  if (lat.abs() - tl).abs() <= a { ctx.hard("ellipse:touches-transition-latitude", &fp); hard = true; }
  if dl * lat.cos() <= a { ctx.hard("ellipse:touches-a-meridian-k.pi/2", &fp); hard = true; }
  if dd > 0 { ctx.hard("ellipse:custom-delta>0", &fp); hard = true; }
  if a == b { ctx.hard("ellipse:circular", &fp); hard = true; }
  if !hard { ctx.bump("plain-ellipses"); }
  if ctx.samples.len() < 8 && hard && c.gu("s") % 13 == 0 { ctx.sample(c, &format!("{} cells ({} full)", cells.len(), cells.iter().filter(|x| x.2).count())); }
}

fn guards(ctx: &mut Ctx) {
  // every entry point (free functions and Layer methods, plain and custom with every delta_depth incl. 0), circular (b == a) and
  // flattened ellipses, several centres and position angles. Depth + delta <= 7 so that a tree that wrongly accepts the call returns quickly.
  for &a in [PI / 2.0, nudge(PI / 2.0, 1), 1.6, 3.0, 10.0, f64::INFINITY].iter() {
    for &(d, dd) in [(3u8, 0u8), (0, 0), (0, 1), (2, 2), (1, 4), (5, 2), (3, 1), (7, 0)].iter() {
      for &bf in [1.0, 0.999, 0.5, 1e-3].iter() { for &(lon, lat, pa) in [(1.0, 0.2, 0.3), (0.0, PI / 2.0, 0.0), (4.0, -1.2, PI / 2.0)].iter() {
        let b = if a.is_finite() { a * bf } else if bf == 1.0 { a } else { 1.0 };
        let c = Case::new("guard").u("depth", d as u64).u("dd", dd as u64).f("a", a).f("b", b).f("lon", lon).f("lat", lat).f("pa", pa);
        let layer = nested::get_or_create(d);
        ctx.evals_n(4);
        let calls: [(&str, Result<(), String>); 4] = [
          ("nested::elliptical_cone_coverage", catch(|| { nested::elliptical_cone_coverage(d, lon, lat, a, b, pa); })),
          ("Layer::elliptical_cone_coverage", catch(|| { layer.elliptical_cone_coverage(lon, lat, a, b, pa); })),
          ("nested::elliptical_cone_coverage_custom", catch(|| { nested::elliptical_cone_coverage_custom(d, dd, lon, lat, a, b, pa); })),
          ("Layer::elliptical_cone_coverage_custom", catch(|| { layer.elliptical_cone_coverage_custom(dd, lon, lat, a, b, pa); })),
        ];
        for (name, r) in calls.iter() { if r.is_ok() { ctx.violation("semi-major-axis>=pi/2-accepted", c.clone().s("cls", name), name.to_string()); } else { ctx.bump("rejections-observed"); } }
        ctx.hard("guard:a>=pi/2", &[d as u64, dd as u64, a.to_bits(), b.to_bits(), lat.to_bits()]);
      } }
    }
  }
  // just below the limit must be accepted (plain and custom, circular and not)
  for &bf in [1.0, 0.3].iter() { for &dd in [0u8, 2].iter() {
    ctx.eval();
    let a = nudge(PI / 2.0, -1);
    if let Err(p) = catch(|| { nested::elliptical_cone_coverage_custom(2, dd, 1.0, 0.2, a, a * bf, 0.3); }) { ctx.violation("elliptical-cone-coverage-panics-on-valid-input", Case::new("guard").u("depth", 2).u("dd", dd as u64).f("a", a).f("b", a * bf), p); }
  } }
  ctx.eval();
  if let Err(p) = catch(|| nested::elliptical_cone_coverage(2, 1.0, 0.2, nudge(PI / 2.0, -1), 0.1, 0.3)) { ctx.violation("elliptical-cone-coverage-panics-on-valid-input", Case::new("guard").u("depth", 2).u("dd", 0).f("a", nudge(PI / 2.0, -1)), p); }
}

fn replay(ctx: &mut Ctx, c: &Case) { match c.mon() { "ell" => judge(ctx, c), "guard" => guards(ctx), m => ctx.inconclusive(&format!("unknown replay monitor {}", m)) } }
