use crate::Monitor;
pub mod c01;
pub mod selftest;
pub mod xbsd;
pub mod bsd_witness;
pub mod c03;
pub mod c04;
pub mod cone;
pub mod ell;
pub mod poly;
pub mod c07;
pub mod c09;
pub mod c10;
pub mod c11;
pub mod c14;
pub mod c15;
pub mod c16;
pub mod c17;
pub mod c19;
pub mod c18;

pub fn lookup(id: &str) -> Option<Monitor> {
  match id {
    "C01" => Some(c01::monitor_c01()),
    "C02" => Some(c01::monitor_c02()),
    "C03" => Some(c03::monitor()),
    "C04" => Some(c04::monitor()),
    "C05" => Some(cone::monitor_c05()),
    "C06" => Some(cone::monitor_c06()),
    "C07" => Some(c07::monitor_c07()),
    "C08" => Some(c07::monitor_c08()),
    "C09" => Some(c09::monitor()),
    "C10" => Some(c10::monitor()),
    "C11" => Some(c11::monitor()),
    "C12" => Some(poly::monitor()),
    "C13" => Some(ell::monitor()),
    "C14" => Some(c14::monitor()),
    "C15" => Some(c15::monitor()),
    "C16" => Some(c16::monitor()),
    "C17" => Some(c17::monitor()),
    "C18" => Some(c18::monitor()),
    "C19" => Some(c19::monitor()),
    "XBSD" => Some(xbsd::monitor()),
    "XC2V" => Some(xbsd::monitor_c2v()),
    "SELFTEST" => Some(selftest::monitor()),
    _ => None,
  }
}

/// entry point of worker subprocesses (C12 polygon shards): args after --worker
pub fn worker_main(_args: &[String]) {
  eprintln!("no worker registered");
  std::process::exit(3);
}
