//! C11 — RING scheme for any NSIDE.
use crate::gen::*;
use crate::refm::*;
use crate::util::*;
use crate::Monitor;
use cdshealpix::ring;
use std::collections::BTreeMap;
use std::f64::consts::PI;

pub fn monitor() -> Monitor {
  Monitor { id: "C11",
    rule: "cells: every cell of every nside 1..=40 (quick) / 1..=300 (thorough): centre vs reference (integer RING decode), hash(centre)==h, vertices, sph_coo, ordering and ring sizes (4i / 4nside) from run-lengths of equal latitude; nsides {primes, 2^k+-1, 10^k, 99999989, 2^29-1, 2^29}: ring-boundary classes + random cells. positions: hostile position set (poles, lon=k.pi/4, transition latitude, +-ulps, negative and >2pi longitudes, near-pole clouds) x those nsides through hash / hash_with_dxdy / sph_coo. Non-trivial = nside not a power of two, or cell first/last of a ring / on a quarter boundary / in a polar ring, or position in a special class or within 1e-9 cell of a border.",
    assumptions: &["reference RING decode (exact integers) and reference projection"],
    run, replay }
}

const NSIDES: [u32; 40] = [1, 2, 3, 4, 5, 6, 7, 8, 11, 12, 13, 16, 17, 31, 64, 100, 127, 255, 256, 257, 1000, 1023, 1024, 4097, 65535, 65536, 65537, 1 << 20, (1 << 20) + 1, 10_000_000, 99_999_989, (1 << 26) + 1, (1 << 27) - 1, (1 << 28) - 1, (1 << 28) + 1, 400_000_009, 500_000_003, (1 << 29) - 3, (1 << 29) - 1, 1 << 29];

fn run(ctx: &mut Ctx, extra: &mut BTreeMap<String, String>) {
  let seed = ctx.seed;
  let small = ctx.pass != "release";
  let max_exh: u32 = if ctx.thorough { if small { 40 } else { 300 } } else if small { 16 } else { 40 };
  let n_pts = if ctx.thorough { if small { 1500 } else { 200000 } } else if small { 300 } else { 3000 };
  let n_rings = if ctx.thorough { if small { 100 } else { 2000 } } else if small { 30 } else { 200 };
  extra.insert("exhaustive_nside_up_to".into(), format!("{}", max_exh));
  let shards = 16usize;
  run_sharded(ctx, shards, |c, k| {
    let mut rng = Rng::new(seed, 1100 + k as u64);
    for nside in 1..=max_exh { if nside as usize % shards == k { exhaustive_nside(c, nside, &mut rng); } }
    for (m, &nside) in NSIDES.iter().enumerate() {
      if m % shards != k { continue; }
      let ns = nside as u64; let n = 12 * ns * ns;
      for _ in 0..n_rings {
        let i = match rng.below(7) { 0 => 1 + rng.below(4), 1 => (ns + 2).saturating_sub(rng.below(5)).max(1), 2 => 2 * ns - 1 + rng.below(3), 3 => 3 * ns - 2 + rng.below(5), 4 => (4 * ns - 1).saturating_sub(rng.below(4)), _ => 1 + rng.below(4 * ns - 1) }.min(4 * ns - 1).max(1);
        let (first, cnt) = ring_first(ns, i);
        for &j in [0, 1, (cnt / 4).saturating_sub(1), cnt / 4, cnt / 2, cnt - 2.min(cnt - 1), cnt - 1, rng.below(cnt)].iter() { judge_cell(c, nside, (first + j.min(cnt - 1)).min(n - 1), &mut rng); }
      }
      for _ in 0..n_rings { judge_cell(c, nside, rng.below(n), &mut rng); }
      // polar rings i whose last cell has 2.hash + 1 = (2i+1)^2 - 2 next to a power of two 2^q (the ring index is recovered through a
      // floating-point square root of that quantity, exact below 2^53 only), from either pole
      for q in 6..=63u32 { for off in -2i64..=2 { for &mirror in [false, true].iter() {
        let i0 = ((2f64.powf(q as f64 / 2.0) - 1.0) / 2.0).round() as i64 + off; if i0 < 1 || i0 as u64 > ns { continue; }
        let i = if mirror { 4 * ns - i0 as u64 } else { i0 as u64 };
        let (first, cnt) = ring_first(ns, i);
        for &j in [0, 1, cnt.saturating_sub(2), cnt - 1].iter() { judge_cell(c, nside, (first + j.min(cnt - 1)).min(n - 1), &mut rng); }
        c.hard("polar-ring-whose-end-is-next-to-2^q/2(sqrt-precision)", &[ns, i]);
      } } }
      rejections(c, nside);
    }
    let mut pts = hostile_points(&mut rng, n_pts);
    if k != 0 { let g = grid_points().len(); pts.drain(0..g); }
    for &(lon, lat) in pts.iter() { for &nside in NSIDES.iter() { judge_point(c, nside, lon, lat); } let ns = 1 + rng.below(1 << 29) as u32; judge_point(c, ns, lon, lat); }
  });
}

fn exhaustive_nside(ctx: &mut Ctx, nside: u32, rng: &mut Rng) {
  let ns = nside as u64; let n = 12 * ns * ns;
  let mut prev: Option<(f64, f64)> = None; let mut run_len = 0u64; let mut ring_i = 1u64;
  for h in 0..n {
    let c = match judge_cell(ctx, nside, h, rng) { Some(c) => c, None => { prev = None; continue; } };
    // ordering + ring sizes from the crate's own centres
    ctx.eval();
    match prev {
      Some(p) if (c.1 - p.1).abs() <= 1e-14 => { run_len += 1; if !(c.0 > p.0) { ctx.violation("RING-order-within-a-ring-not-by-increasing-longitude", Case::new("order").u("nside", ns).u("h", h), format!("{:?} after {:?}", c, p)); } }
      Some(p) => {
        let want = ring_first(ns, ring_i).1;
        if run_len != want { ctx.violation("ring-size-differs-from-4i/4nside", Case::new("order").u("nside", ns).u("h", h), format!("ring {} has {} cells, expected {}", ring_i, run_len, want)); }
        if !(c.1 < p.1) { ctx.violation("RING-order-not-by-decreasing-latitude", Case::new("order").u("nside", ns).u("h", h), format!("{:?} after {:?}", c, p)); }
        ring_i += 1; run_len = 1;
      }
      None => { run_len = 1; }
    }
    if !(c.0 >= 0.0 && c.0 < TWO_PI) { ctx.violation("centre-longitude-outside-[0,2pi)", Case::new("order").u("nside", ns).u("h", h), format!("{:?}", c)); }
    prev = Some(c);
  }
  ctx.eval();
  if ring_i != 4 * ns - 1 || run_len != 4 { ctx.violation("number-of-rings-not-4nside-1", Case::new("order").u("nside", ns).u("h", n - 1), format!("rings {} last run {}", ring_i, run_len)); }
  ctx.enumerated("exhaustive-nsides:cells", n);
  rejections(ctx, nside);
}

fn cell_class(ns: u64, h: u64) -> &'static str {
  let (i, j, cnt) = ring_decode(ns, h);
  if j == 0 || j == cnt - 1 { "first/last-of-ring" } else if j % (cnt / 4) == 0 || (j + 1) % (cnt / 4) == 0 { "quarter-boundary" }
  else if i == ns || i == 3 * ns { "transition-ring" } else if i < ns || i > 3 * ns { "polar-cap-ring" } else { "" }
}

/// returns the crate's centre when available
pub fn judge_cell(ctx: &mut Ctx, nside: u32, h: u64, rng: &mut Rng) -> Option<(f64, f64)> {
  let ns = nside as u64;
  let mk = || Case::new("cell").u("nside", ns).u("h", h);
  ctx.evals_n(2);
  let c = match catch(|| ring::center(nside, h)) { Ok(c) => c, Err(p) => { ctx.violation("ring::center-panics-on-valid-cell", mk(), p); return None; } };
  let (cx, cy) = ring_center_proj(ns, h);
  let rc = ref_unproj(cx.rem_euclid(8.0), cy);
  let d = dist(rc, c);
  ctx.worst_max("center_vs_reference_rad", d);
  if d > 1e-13 { ctx.violation("ring::center-differs-from-reference", mk(), format!("got {:?} ref {:?} d={:e}", c, rc, d)); }
  match catch(|| ring::hash(nside, c.0, c.1)) { Ok(hh) => if hh != h { ctx.violation("hash(center(h))-not-h", mk(), format!("centre {:?} -> {}", c, hh)); }, Err(p) => ctx.violation("ring::hash-panics-at-a-cell-centre", mk(), p) }
  // vertices
  ctx.eval();
  match catch(|| ring::vertices(nside, h)) {
    Err(p) => ctx.violation("ring::vertices-panics-on-valid-cell", mk(), p),
    Ok(v) => { let o = 1.0 / ns as f64; let want = [(cx, cy - o), (cx + o, cy), (cx, cy + o), (cx - o, cy)];
      for k in 0..4 { let w = ref_unproj(want[k].0.rem_euclid(8.0), want[k].1.max(-2.0).min(2.0)); let d = dist(v[k], w); ctx.worst_max("vertex_vs_reference_rad", d); if d > 1e-13 { ctx.violation("ring::vertices-differ-from-reference", mk().u("k", k as u64), format!("got {:?} ref {:?} d={:e}", v[k], w, d)); } } }
  }
  // interior offsets through sph_coo -> hash_with_dxdy
  for q in 0..2 {
    let (ox, oy) = if q == 0 { (0.5, 0.5) } else { (0.02 + 0.96 * rng.f(), 0.02 + 0.96 * rng.f()) };
    ctx.evals_n(2);
    let mko = || Case::new("offset").u("nside", ns).u("h", h).f("ox", ox).f("oy", oy);
    match catch(|| ring::sph_coo(nside, h, ox, oy)) {
      Err(p) => ctx.violation("ring::sph_coo-panics-on-interior-offset", mko(), p),
      Ok(p) => {
        let o = 1.0 / ns as f64; let w = ref_unproj((cx + (ox - oy) * o).rem_euclid(8.0), cy + (ox + oy - 1.0) * o);
        let d = dist(p, w); if d > 1e-13 { ctx.violation("ring::sph_coo-differs-from-reference", mko(), format!("got {:?} ref {:?} d={:e}", p, w, d)); }
        match catch(|| ring::hash_with_dxdy(nside, p.0, p.1)) {
          Err(e) => ctx.violation("ring::hash_with_dxdy-panics", mko(), e),
          Ok((hh, dx, dy)) => { let t = 1e-6 + 8.0 * f64::EPSILON * ns as f64; if hh != h || (dx - ox).abs() > t || (dy - oy).abs() > t { ctx.violation("hash_with_dxdy(sph_coo(h,dx,dy))-not-(h,dx,dy)", mko(), format!("got ({}, {}, {})", hh, dx, dy)); } }
        }
      }
    }
  }
  let cls = cell_class(ns, h);
  if !nside.is_power_of_two() { ctx.hard("cell:nside-not-power-of-two", &[ns, h]); }
  if !cls.is_empty() && ns > 300 { ctx.hard(&format!("cell:{}", cls), &[ns, h]); if ctx.samples.len() < 5 && h % 7 == 0 { ctx.sample(&mk(), &format!("centre={:?} class={}", c, cls)); } }
  Some(c)
}

pub fn judge_point(ctx: &mut Ctx, nside: u32, lon: f64, lat: f64) {
  let ns = nside as u64;
  let lc = if lon < 0.0 { "lon<0" } else if lon >= TWO_PI { "lon>=2pi" } else { "lon-std" };
  let pc = point_class(lon.abs() % TWO_PI, lat);
  let cls = format!("{}/{}", lc, pc);
  let mk = || Case::new("point").u("nside", ns).f("lon", lon).f("lat", lat).s("cls", &cls);
  ctx.eval();
  let (h, dx, dy) = match catch(|| ring::hash_with_dxdy(nside, lon, lat)) { Ok(v) => v, Err(p) => { ctx.violation("ring::hash_with_dxdy-panics-on-valid-position", mk(), p); return; } };
  if h >= 12 * ns * ns { ctx.violation("ring::hash-out-of-range", mk(), format!("h={}", h)); return; }
  // "denotes the cell containing the position": inside or on the border, within 1e-14 plane units (5e-6 of the smallest cell)
  let tol = plane_tol(lon).max(1e-14);
  let ex = ring_excess(ns, h, lon, lat, tol);
  ctx.worst_max("excess_outside_cell_plane_units", ex);
  if ex > tol { ctx.violation("ring::hash-cell-does-not-contain-position", mk(), format!("h={} excess={:e} plane = {:e} cells", h, ex, ex * ns as f64)); return; }
  ctx.eval();
  match catch(|| ring::hash(nside, lon, lat)) { Ok(hh) => if hh != h { ctx.violation("ring::hash-differs-from-hash_with_dxdy", mk(), format!("{} vs {}", hh, h)); }, Err(p) => ctx.violation("ring::hash-panics-on-valid-position", mk(), p) }
  let rt = 1e-9 + ns as f64 * 8.0 * f64::EPSILON;
  if !(dx.is_finite() && dy.is_finite() && dx >= -rt && dx <= 1.0 + rt && dy >= -rt && dy <= 1.0 + rt) { ctx.violation("ring::hash_with_dxdy-offsets-outside-[0,1]", mk(), format!("h={} dx={} dy={}", h, dx, dy)); return; }
  if dx >= 0.0 && dx < 1.0 && dy >= 0.0 && dy < 1.0 {
    ctx.eval();
    match catch(|| ring::sph_coo(nside, h, dx, dy)) {
      Err(p) => ctx.violation("ring::sph_coo-panics-on-returned-offsets", mk(), p),
      Ok(p) => { let d = dist(p, (lon, lat)); if lon.abs() < 50.0 { ctx.worst_max("sph_coo(hash_with_dxdy)_rad", d); } if d > far_tol(1e-13, lon) { ctx.violation("ring::sph_coo-does-not-invert-hash_with_dxdy", mk(), format!("h={} dx={} dy={} -> {:?} d={:e}", h, dx, dy, p, d)); } }
    }
  }
  if !pc.is_empty() || lc != "lon-std" { ctx.hard(&format!("point:{}", cls), &[ns, lon.to_bits(), lat.to_bits()]); if ctx.samples.len() < 10 && ctx.evals % 23 == 0 { ctx.sample(&mk(), &format!("h={} dx={} dy={}", h, dx, dy)); } }
  if ex > -1e-9 / ns as f64 { ctx.hard("point:within-1e-9-cell-of-border", &[ns, lon.to_bits(), lat.to_bits()]); }
}

fn rejections(ctx: &mut Ctx, nside: u32) {
  let ns = nside as u64; let n = 12 * ns * ns;
  for &bad in [n, n + 1, 2 * n, u64::MAX].iter() {
    let mut chk = |name: &str, ok: bool| { ctx.eval(); if ok { ctx.violation(&format!("ring::{}-accepts-cell-number>=12nside^2", name), Case::new("bad").u("nside", ns).u("h", bad).s("fn", name), String::new()); } else { ctx.bump("rejections-observed"); ctx.hard("rejected-argument", &[ns, bad, name.len() as u64]); } };
    chk("center", catch(|| ring::center(nside, bad)).is_ok());
    chk("vertices", catch(|| ring::vertices(nside, bad)).is_ok());
    chk("sph_coo", catch(|| ring::sph_coo(nside, bad, 0.5, 0.5)).is_ok());
  }
  for &lat in [nudge(PI / 2.0, 1), nudge(-PI / 2.0, -1), 1.6, -2.0, f64::NAN].iter() {
    ctx.eval();
    match catch(|| ring::hash(nside, 1.0, lat)) { Err(_) => { ctx.bump("rejections-observed"); ctx.hard("rejected-argument", &[ns, lat.to_bits(), 0]); } Ok(h) => ctx.violation("ring::hash-accepts-latitude-out-of-range", Case::new("badlat").u("nside", ns).f("lat", lat), format!("-> {}", h)) }
    ctx.eval();
    if let Ok(v) = catch(|| ring::hash_with_dxdy(nside, 1.0, lat)) { ctx.violation("ring::hash_with_dxdy-accepts-latitude-out-of-range", Case::new("badlat").u("nside", ns).f("lat", lat), format!("-> {:?}", v)); } else { ctx.bump("rejections-observed"); }
  }
}

fn replay(ctx: &mut Ctx, c: &Case) {
  let nside = c.gu("nside") as u32;
  let mut rng = Rng::new(ctx.seed, 1);
  match c.mon() {
    "cell" | "offset" => { judge_cell(ctx, nside, c.gu("h"), &mut rng); }
    "order" => { if nside <= 2000 { exhaustive_nside(ctx, nside, &mut rng); } }
    "point" => judge_point(ctx, nside, c.gf("lon"), c.gf("lat")),
    "bad" | "badlat" => rejections(ctx, nside),
    m => ctx.inconclusive(&format!("unknown replay monitor {}", m)),
  }
}
