//! Oracle self-test support: dumps what the reference model computes for a set of hostile positions so that an
//! independent 50-digit implementation (oracle_selftest/selftest.py, mpmath) can compare. Decides nothing about the crate.
use crate::gen::*;
use crate::refm::*;
use crate::util::*;
use crate::Monitor;
use std::collections::BTreeMap;
use std::io::Write;

pub fn monitor() -> Monitor {
  Monitor { id: "SELFTEST", rule: "reference-model dump for the mpmath cross-check", assumptions: &[], run, replay: |_, _| {} }
}

fn run(ctx: &mut Ctx, extra: &mut BTreeMap<String, String>) {
  let path = std::env::var("HPX_SELFTEST_OUT").unwrap_or_else(|_| "/tmp/hpx_selftest.txt".into());
  let mut f = std::io::BufWriter::new(std::fs::File::create(&path).expect("selftest out"));
  let mut rng = Rng::new(ctx.seed, 4242);
  let mut pts = hostile_points_std(&mut rng, 3000);
  pts.truncate(12000);
  for &(lon, lat) in pts.iter() {
    let imgs = ref_proj_images(lon, lat, 0.0);
    let _ = write!(f, "P {:016x} {:016x} {}", lon.to_bits(), lat.to_bits(), imgs.len());
    for (x, y) in imgs { let _ = write!(f, " {:016x} {:016x}", x.to_bits(), y.to_bits()); }
    let _ = writeln!(f);
    ctx.eval();
  }
  for k in 0..6000 {
    let (mut x, mut y) = (rng.f() * 8.0, rng.f() * 4.0 - 2.0);
    if k % 4 == 0 { x = rng.below(9) as f64; }
    if k % 8 < 2 { y = [-2.0, -1.0, 0.0, 1.0, 2.0][rng.below(5) as usize]; }
    let ya: f64 = y.abs();
    if ya > 1.0 { let sigma = 2.0 - ya; let xc = 2.0 * (x / 2.0).floor().min(3.0) + 1.0; if (x - xc).abs() > sigma { continue; } }
    let (lon, lat) = ref_unproj(x, y);
    let _ = writeln!(f, "U {:016x} {:016x} {:016x} {:016x}", x.to_bits(), y.to_bits(), lon.to_bits(), lat.to_bits());
    ctx.eval();
  }
  // cell centres / vertices of a few cells at all depths: plane coordinates of the reference
  for depth in 0..30u8 { for _ in 0..40 { let h = rng.below(n_hash(depth)); let (cx, cy) = cell_center_proj(depth, h); let (d0, i, j) = split(depth, h); let _ = writeln!(f, "C {} {} {} {} {:016x} {:016x}", depth, d0, i, j, cx.to_bits(), cy.to_bits()); ctx.eval(); } }
  ctx.hard("selftest", &[1]); ctx.hard("selftest", &[2]);
  extra.insert("file".into(), jstr(&path));
}
