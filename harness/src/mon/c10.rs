//! C10 — NESTED <-> RING bijection realising the RING order.
use crate::refm::*;
use crate::util::*;
use crate::Monitor;
use cdshealpix::nested::{self, Layer};
use std::collections::BTreeMap;

pub fn monitor() -> Monitor {
  Monitor { id: "C10",
    rule: "every RING index r of depths <= 8 (quick) / <= 11 (thorough); deeper: class-sampled rings (polar, transition, equator, random) and every ring whose index is 2^p - 1 .. 2^p + 2 counted from either pole: from_ring(r) in range, to_ring(from_ring(r)) == r (=> bijection on the exhaustive depths), projected centre of NESTED cell from_ring(r) == reference centre of RING cell r (integer-sqrt RING decode), ordering of consecutive indices (latitude non-increasing, longitude increasing within a ring, in [0,2pi)), ring::center == Layer::center; deeper depths up to 29: ring-boundary classes (first/second/quarter/last cells of rings 1..4, nside-2..nside+2, 2nside-1..2nside+1, 3nside-2..3nside+2, 4nside-4..4nside-1 and random rings) and random cells, each together with its successor r+1. Non-trivial = index that is first/last of its ring or on a quarter boundary, or in a polar-cap ring, or in a transition ring (i in {nside, 3nside}) (reference classification).",
    assumptions: &["reference RING decode uses exact integer arithmetic (u128, integer square root)", "reference cell centres in the projection plane"],
    run, replay }
}

fn run(ctx: &mut Ctx, extra: &mut BTreeMap<String, String>) {
  let seed = ctx.seed;
  let small = ctx.pass != "release";
  let exh: u8 = if ctx.thorough { if small { 7 } else { 11 } } else if small { 5 } else { 8 };
  let n_rings = if ctx.thorough { if small { 300 } else { 60000 } } else if small { 60 } else { 600 };
  extra.insert("exhaustive_up_to_depth".into(), format!("{}", exh));
  let shards = 16u64;
  run_sharded(ctx, shards as usize, |c, k| {
    let mut rng = Rng::new(seed, 1000 + k as u64);
    for depth in 0..30u8 {
      let layer = nested::get_or_create(depth);
      let ns = nside(depth); let n = n_hash(depth);
      // hostile call history: the RING functions are first used with other NSIDE values sharing factors with this one (m.2^depth, m odd),
      // so that any state kept between calls (caches keyed on part of the arguments) is primed with a foreign key
      for &m in [3u64, 5, 7].iter() { let ns2 = m * ns; if ns2 > (1u64 << 29) { continue; } let n2 = 12 * ns2 * ns2;
        for &r in [0u64, n2 / 2, n2 - 1, (2 * ns2 * (ns2 + 1)).min(n2 - 1)].iter() { let _ = catch(|| cdshealpix::ring::center(ns2 as u32, r)); } }
      if depth <= exh {
        let (a, b) = (n * k as u64 / shards, n * (k as u64 + 1) / shards);
        let mut seen_xor = 0u64;
        for r in a..b { if let Some(h) = judge_ring_index(c, layer, depth, r, r + 1 < n) { seen_xor ^= h; } }
        let _ = seen_xor;
        c.enumerated("exhaustive-depths:ring-indices", b - a);
        // NESTED side: from_ring(to_ring(h)) == h
        for h in a..b { judge_nested_index(c, layer, depth, h); }
      } else {
        for _ in 0..(n_rings / shards as usize + 1) {
          let i = match rng.below(7) { 0 => 1 + rng.below(4), 1 => (ns + 2).saturating_sub(rng.below(5)).max(1), 2 => 2 * ns - 1 + rng.below(3), 3 => 3 * ns - 2 + rng.below(5), 4 => 4 * ns - 1 - rng.below(4), _ => 1 + rng.below(4 * ns - 1) }.min(4 * ns - 1).max(1);
          let (first, cnt) = ring_first(ns, i);
          for &j in [0, 1, (cnt / 4).saturating_sub(1), cnt / 4, cnt / 4 + 1, cnt / 2, cnt - 2.min(cnt - 1), cnt - 1, rng.below(cnt)].iter() {
            let r = first + j.min(cnt - 1);
            judge_ring_index(c, layer, depth, r, r + 1 < n);
          }
        }
        for _ in 0..(n_rings / 2) { let h = rng.below(n); judge_nested_index(c, layer, depth, h); let r = rng.below(n); judge_ring_index(c, layer, depth, r, r + 1 < n); }
        // rings whose index is next to a power of two (integer-width boundaries of the ring arithmetic), counted from either pole
        if depth as u64 % shards == k as u64 {
          for p in 1..32u32 { for off in -1i64..=2 { for &mirror in [false, true].iter() {
            let i0 = (1i64 << p) + off; if i0 < 1 || i0 as u64 > 4 * ns - 1 { continue; }
            let i = if mirror { 4 * ns - i0 as u64 } else { i0 as u64 };
            let (first, cnt) = ring_first(ns, i);
            for &j in [0, 1, cnt / 4, cnt / 2, cnt - 1, rng.below(cnt)].iter() { let r = first + j.min(cnt - 1); judge_ring_index(c, layer, depth, r, r + 1 < n); if let Ok(h) = catch(|| layer.from_ring(r)) { if h < n { judge_nested_index(c, layer, depth, h); } } }
            c.hard("ring-index-next-to-a-power-of-two", &[depth as u64, i]);
          } } }
          // rings i whose last cell has 2.hash + 1 = (2i+1)^2 - 2 next to a power of two 2^q (q odd included: i ~ 2^(q/2 - 1) is then not a
          // power of two): the ring index is recovered through a floating-point square root of that quantity (exact below 2^53 only)
          for q in 6..=63u32 { for off in -2i64..=2 { for &mirror in [false, true].iter() {
            let i0 = ((2f64.powf(q as f64 / 2.0) - 1.0) / 2.0).round() as i64 + off; if i0 < 1 || i0 as u64 > ns { continue; }
            let i = if mirror { 4 * ns - i0 as u64 } else { i0 as u64 };
            let (first, cnt) = ring_first(ns, i);
            for &j in [0, 1, 2, cnt / 2, cnt.saturating_sub(3), cnt.saturating_sub(2), cnt - 1].iter() { let r = first + j.min(cnt - 1); judge_ring_index(c, layer, depth, r, r + 1 < n); }
            c.hard("polar-ring-whose-end-is-next-to-2^q/2(sqrt-precision)", &[depth as u64, i]);
          } } }
        }
      }
    }
  });
}

fn ring_class(ns: u64, r: u64) -> &'static str {
  let (i, j, cnt) = ring_decode(ns, r);
  if j == 0 || j == cnt - 1 { "first/last-of-ring" } else if j % (cnt / 4) == 0 || (j + 1) % (cnt / 4) == 0 { "quarter-boundary" }
  else if i == ns || i == 3 * ns { "transition-ring" } else if i < ns || i > 3 * ns { "polar-cap-ring" } else { "" }
}

pub fn judge_nested_index(ctx: &mut Ctx, layer: &'static Layer, depth: u8, h: u64) {
  ctx.eval();
  let mk = || Case::new("nested").u("depth", depth as u64).u("h", h);
  let n = n_hash(depth);
  let r = match catch(|| layer.to_ring(h)) { Ok(r) => r, Err(p) => { ctx.violation("to_ring-panics-on-valid-cell", mk(), p); return; } };
  if r >= n { ctx.violation("to_ring-out-of-range", mk(), format!("r={}", r)); return; }
  match catch(|| layer.from_ring(r)) { Ok(b) => if b != h { ctx.violation("from_ring(to_ring(h))-not-h", mk(), format!("r={} back={}", r, b)); }, Err(p) => ctx.violation("from_ring-panics-on-valid-index", mk(), format!("r={} {}", r, p)) }
  // reference: ring cell r has the same centre as nested cell h
  ctx.eval();
  let (rx, ry) = ring_center_proj(nside(depth), r); let (nx, ny) = cell_center_proj(depth, h);
  let mut dx = (rx - nx).rem_euclid(8.0); if dx > 4.0 { dx -= 8.0; }
  if dx.abs() > 1e-12 || (ry - ny).abs() > 1e-12 { ctx.violation("to_ring(h)-is-not-the-RING-index-of-that-cell", mk(), format!("r={} ring centre ({}, {}) nested centre ({}, {})", r, rx, ry, nx, ny)); }
}

/// returns from_ring(r) when it is in range
pub fn judge_ring_index(ctx: &mut Ctx, layer: &'static Layer, depth: u8, r: u64, with_next: bool) -> Option<u64> {
  ctx.eval();
  let mk = || Case::new("ring").u("depth", depth as u64).u("r", r);
  let ns = nside(depth); let n = n_hash(depth);
  let h = match catch(|| layer.from_ring(r)) { Ok(h) => h, Err(p) => { ctx.violation("from_ring-panics-on-valid-index", mk(), p); return None; } };
  if h >= n { ctx.violation("from_ring-out-of-range", mk(), format!("h={}", h)); return None; }
  match catch(|| layer.to_ring(h)) { Ok(b) => if b != r { ctx.violation("to_ring(from_ring(r))-not-r", mk(), format!("h={} back={}", h, b)); }, Err(p) => ctx.violation("to_ring-panics-on-valid-cell", mk(), p) }
  // pins the ordering: projected centre of nested cell h == reference centre of RING cell r
  ctx.eval();
  let (rx, ry) = ring_center_proj(ns, r); let (nx, ny) = cell_center_proj(depth, h);
  let mut dx = (rx - nx).rem_euclid(8.0); if dx > 4.0 { dx -= 8.0; }
  if dx.abs() > 1e-12 || (ry - ny).abs() > 1e-12 { ctx.violation("from_ring(r)-is-not-the-cell-of-RING-index-r", mk(), format!("h={} ring centre ({}, {}) nested centre ({}, {})", h, rx, ry, nx, ny)); }
  // both schemes give the same centre on the sphere
  ctx.eval();
  let nc = layer.center(h);
  match catch(|| cdshealpix::ring::center(ns as u32, r)) {
    Err(p) => ctx.violation("ring::center-panics-on-valid-index", mk(), p),
    Ok(c) => { let d = dist(c, nc); ctx.worst_max("ring_center_vs_nested_center_rad", d); if d > 1e-13 { ctx.violation("ring::center-differs-from-nested-center-of-from_ring", mk(), format!("ring {:?} nested {:?} d={:e}", c, nc, d)); } }
  }
  if !(nc.0 >= 0.0 && nc.0 < TWO_PI + 1e-15) { ctx.violation("centre-longitude-outside-[0,2pi)", mk(), format!("{:?}", nc)); }
  if with_next {
    ctx.eval();
    if let Ok(h2) = catch(|| layer.from_ring(r + 1)) { if h2 < n {
      let c2 = layer.center(h2);
      let same_ring = ring_decode(ns, r).0 == ring_decode(ns, r + 1).0;
      if same_ring {
        if (c2.1 - nc.1).abs() > 1e-14 || !(c2.0 > nc.0) { ctx.violation("RING-order-within-a-ring-not-by-increasing-longitude", mk(), format!("r -> {:?}, r+1 -> {:?}", nc, c2)); }
      } else if !(c2.1 < nc.1) { ctx.violation("RING-order-not-by-decreasing-latitude", mk(), format!("r -> {:?}, r+1 -> {:?}", nc, c2)); }
    } }
  }
  let cls = ring_class(ns, r);
  if !cls.is_empty() && depth > 8 { ctx.hard(cls, &[depth as u64, r]); if ctx.samples.len() < 8 && depth >= 26 && r % 3 == 0 { ctx.sample(&mk(), &format!("from_ring={} class={}", h, cls)); } }
  Some(h)
}

fn replay(ctx: &mut Ctx, c: &Case) {
  let depth = c.gu("depth") as u8; let layer = nested::get_or_create(depth);
  match c.mon() {
    "ring" => { let r = c.gu("r"); judge_ring_index(ctx, layer, depth, r, r + 1 < n_hash(depth)); }
    "nested" => judge_nested_index(ctx, layer, depth, c.gu("h")),
    m => ctx.inconclusive(&format!("unknown replay monitor {}", m)),
  }
}
