//! C07 — set algebra on plain MOCs.  C08 — three-valued semantics with partial flags.
use crate::bm::*;
use crate::util::*;
use crate::Monitor;
use cdshealpix::nested::bmoc::BMOC;
use std::collections::BTreeMap;

pub fn monitor_c07() -> Monitor {
  Monitor { id: "C07",
    rule: "operands are canonical (packed) MOCs built from bit-sets of deepest cells. Exhaustive universes: U1 = base cell 5 at depth 1 (16 sets, all pairs), U2 = base cells {0, 11} at depth 1 (256 sets, all 65 536 pairs, operands also re-expressed with a smaller depth_max when possible), U3 = base cell 5 at depth 2 (65 536 sets: all for not; 10^6 random pairs in quick, all 2^32 pairs in thorough). Random: pairs of trees of depth_max 0..5 (different for the two operands), 1-12 base cells, plus degenerate shapes (empty, full sky, single deepest cell, first/last cell of the sky). Every result is compared entry-for-entry with the canonical packing of the model's result (=> well formed, depth_max = max, set equality, canonical); the algebraic identities are checked with BMOC::equals. Non-trivial = pair with both operands non-empty and not full sky and (in random) different depth_max or cells of mixed depths. Plus SPARSE DEEP operands (60 000 pairs quick / 10^6 thorough): a few cells spread over depths 0..29 (depth_max 12..29), the deep cells of one operand mostly inside coarse cells of the other one (depth gaps of 16..29 levels), judged against an interval model over the deepest cells (pointwise table on intervals, and for MOCs the canonical decomposition of the intervals into largest aligned cells).",
    assumptions: &["model = bit-set of deepest cells; canonical packing computed by the harness (bm.rs)"],
    run: |c, x| run(c, x, true), replay }
}
pub fn monitor_c08() -> Monitor {
  Monitor { id: "C08",
    rule: "operands are valid BMOCs with arbitrary flags. Exhaustive universes: V1 = base cell 5, max depth 1: the 84 trees (root absent/partial/full or split into 4 children each absent/partial/full), all 7 056 pairs; V2 = base cells {0, 11}: 7 056 trees, 10^6 random pairs (quick) / all 4.98e7 pairs (thorough). Random: trees of depth_max 0..4 with mixed flags and depths (coarse partial over fine full and vice versa), 1-12 base cells, different depth_max. Each result is mapped to the model (deepest cell -> absent/partial/full) and compared pointwise with the documented tables; it must also be well formed. Non-trivial = pair in which some deepest cell sees a partial cell of one operand against a non-absent cell of the other, or cells of different depths overlap. Plus SPARSE DEEP operands (60 000 pairs quick / 10^6 thorough): a few cells spread over depths 0..29 (depth_max 12..29), the deep cells of one operand mostly inside coarse cells of the other one (depth gaps of 16..29 levels), judged against an interval model over the deepest cells (pointwise table on intervals, and for MOCs the canonical decomposition of the intervals into largest aligned cells).",
    assumptions: &["three-valued tables taken from the operators' documentation: not 0<->2, 1->1; and = min; or = max; xor = other operand if one absent, absent if both full, partial otherwise"],
    run: |c, x| run(c, x, false), replay }
}

#[derive(Clone, Copy, PartialEq, Debug)]
pub enum Op { Not, And, Or, Xor }
impl Op { fn name(self) -> &'static str { match self { Op::Not => "not", Op::And => "and", Op::Or => "or", Op::Xor => "xor" } } }
fn model_op(op: Op, a: u8, b: u8) -> u8 {
  match op {
    Op::Not => match a { 0 => 2, 2 => 0, x => x },
    Op::And => a.min(b),
    Op::Or => a.max(b),
    Op::Xor => match (a, b) { (0, x) => x, (x, 0) => x, (2, 2) => 0, _ => 1 },
  }
}
fn apply(op: Op, a: &BMOC, b: &BMOC) -> Result<BMOC, String> {
  catch(|| match op { Op::Not => a.not(), Op::And => a.and(b), Op::Or => a.or(b), Op::Xor => a.xor(b) })
}

fn mk_case(op: Op, dma: u8, ca: &[CellT], dmb: u8, cb: &[CellT], moc: bool) -> Case {
  Case::new("op").s("op", op.name()).u("dma", dma as u64).s("a", &cells_to_str(ca)).u("dmb", dmb as u64).s("b", &cells_to_str(cb)).b("moc", moc)
}

/// judge one operator application on explicit operands
pub fn judge(ctx: &mut Ctx, op: Op, dma: u8, ca: &[CellT], dmb: u8, cb: &[CellT], moc: bool) {
  let a = to_bmoc(dma, ca); let b = to_bmoc(dmb, cb);
  judge_built(ctx, op, &a, dma, ca, &b, dmb, cb, moc);
}
/// same, on operands that already exist (whatever built them: the low-level builder, the fixed-depth builder, an operator, a coverage)
pub fn judge_built(ctx: &mut Ctx, op: Op, a: &BMOC, dma: u8, ca: &[CellT], b: &BMOC, dmb: u8, cb: &[CellT], moc: bool) {
  let dm = if op == Op::Not { dma } else { dma.max(dmb) };
  ctx.eval();
  let res = match apply(op, a, b) { Ok(r) => r, Err(p) => { ctx.violation(&format!("{}-panics-on-valid-operands", op.name()), mk_case(op, dma, ca, dmb, cb, moc), p); return; } };
  if res.get_depth_max() != dm { ctx.violation(&format!("{}-result-depth_max-not-the-max", op.name()), mk_case(op, dma, ca, dmb, cb, moc), format!("{} != {}", res.get_depth_max(), dm)); return; }
  let cells = match walk(&res, 1 << 14) { Ok(_) => cells_of(&res), Err(e) => { ctx.violation(&format!("{}-result-not-well-formed", op.name()), mk_case(op, dma, ca, dmb, cb, moc), e); return; } };
  let (ma, mb, mr) = (to_model(dm, ca), to_model(dm, cb), to_model(dm, &cells));
  let mut want = vec![0u8; mr.len()];
  for i in 0..mr.len() { want[i] = model_op(op, ma[i], mb[i]); }
  if let Some(i) = (0..mr.len()).find(|&i| mr[i] != want[i]) {
    let st = |x: u8| ["absent", "partial", "full"][x as usize];
    ctx.violation(&format!("{}-differs-from-the-{}", op.name(), if moc { "set-operation" } else { "three-valued-table" }), mk_case(op, dma, ca, dmb, cb, moc), format!("deepest cell {}: a={} b={} -> got {} want {}; result {}", i, st(ma[i]), st(mb[i]), st(mr[i]), st(want[i]), fmt_cells(&cells)));
    return;
  }
  if moc {
    ctx.eval();
    let canon = canonical_moc(dm, &want);
    if cells != canon { ctx.violation(&format!("{}-result-not-in-canonical-packed-form", op.name()), mk_case(op, dma, ca, dmb, cb, moc), format!("got {} canonical {}", fmt_cells(&cells), fmt_cells(&canon))); }
  }
}

/// judge one operator application on operands too deep to flatten, against the interval model
pub fn judge_sparse(ctx: &mut Ctx, op: Op, dma: u8, ca: &[CellT], dmb: u8, cb: &[CellT], moc: bool) {
  let a = to_bmoc(dma, ca); let b = to_bmoc(dmb, cb);
  let dm = if op == Op::Not { dma } else { dma.max(dmb) };
  let case = || mk_case(op, dma, ca, dmb, cb, moc).b("sparse", true);
  ctx.eval();
  let res = match apply(op, &a, &b) { Ok(r) => r, Err(p) => { ctx.violation(&format!("{}-panics-on-valid-operands", op.name()), case(), p); return; } };
  if res.get_depth_max() != dm { ctx.violation(&format!("{}-result-depth_max-not-the-max", op.name()), case(), format!("{} != {}", res.get_depth_max(), dm)); return; }
  let cells = match walk_opt(&res, 1 << 12, false) { Ok(_) => cells_of(&res), Err(e) => { ctx.violation(&format!("{}-result-not-well-formed", op.name()), case(), e); return; } };
  let n = 12u64 << (2 * dm);
  let scale = |d: u8, c: &[CellT]| -> Vec<Iv> { to_intervals(d, c).into_iter().map(|(x, y, s)| (x << (2 * (dm - d)), y << (2 * (dm - d)), s)).collect() };
  let (ia, ib) = (scale(dma, ca), if op == Op::Not { Vec::new() } else { scale(dmb, cb) });
  let want = combine_intervals(n, &ia, &ib, &|x, y| model_op(op, x, y));
  let got = to_intervals(dm, &cells);
  if got != want {
    let st = |x: u8| ["absent", "partial", "full"][x as usize];
    let k = got.iter().zip(want.iter()).position(|(g, w)| g != w).unwrap_or(got.len().min(want.len()));
    ctx.violation(&format!("{}-differs-from-the-{}", op.name(), if moc { "set-operation" } else { "three-valued-table" }), case(), format!("interval model at depth {}: first difference at interval {}: got {:?} want {:?} ({} / {} intervals); states: 1={} 2={}", dm, k, got.get(k), want.get(k), got.len(), want.len(), st(1), st(2)));
    return;
  }
  if moc { ctx.eval(); let canon = canonical_from_intervals(dm, &want); if cells != canon { ctx.violation(&format!("{}-result-not-in-canonical-packed-form", op.name()), case(), format!("got {} canonical {}", fmt_cells(&cells), fmt_cells(&canon))); } }
  let gap = { let da = ca.iter().map(|c| c.0).min().unwrap_or(0); let db = cb.iter().map(|c| c.0).max().unwrap_or(0); let da2 = cb.iter().map(|c| c.0).min().unwrap_or(0); let db2 = ca.iter().map(|c| c.0).max().unwrap_or(0); (db.saturating_sub(da)).max(db2.saturating_sub(da2)) };
  ctx.hard(&format!("sparse-deep-operands:{}:depth-gap>={}", op.name(), if gap >= 16 { 16 } else if gap >= 8 { 8 } else { 0 }), &[dma as u64, dmb as u64, ca.len() as u64, cb.len() as u64, ca.iter().chain(cb.iter()).fold(0u64, |acc, c| acc.wrapping_mul(1000003).wrapping_add(c.1 ^ ((c.0 as u64) << 58)))]);
}

/// operands with few cells spread over depths 0..29: a coarse part (depth <= 6) and a deep part (many of whose cells lie inside coarse
/// cells of the OTHER operand, 16 to 29 levels below them); valid BMOCs (z-ordered, non-overlapping), flags mixed unless `moc`
pub fn gen_sparse_pair(rng: &mut Rng, moc: bool) -> (u8, Vec<CellT>, u8, Vec<CellT>) {
  let mk = |rng: &mut Rng, other_coarse: &[(u8, u64)]| -> (u8, Vec<CellT>, Vec<(u8, u64)>) {
    let dm = *rng.pick(&[29u8, 29, 24, 20, 16, 12]);
    let mut cells: Vec<CellT> = Vec::new(); let mut coarse = Vec::new();
    for _ in 0..1 + rng.below(4) { let d = rng.below(7.min(dm as u64 + 1)) as u8; let h = rng.below(12u64 << (2 * d)); cells.push((d, h, moc || rng.coin())); coarse.push((d, h)); }
    for _ in 0..rng.below(8) { // deep cells, preferably inside a coarse cell of the other operand
      let d = (dm as u64 - rng.below(6.min(dm as u64 + 1))) as u8;
      let h = if !other_coarse.is_empty() && rng.below(4) != 0 { let (cd, chh) = *rng.pick(other_coarse); if cd > d { continue; } let s = 2 * (d - cd) as u32; (chh << s) | (rng.next() & ((1u64 << s) - 1).max(0)) & ((1u64 << s) - 1) } else { rng.below(12u64 << (2 * d)) };
      cells.push((d, h, moc || rng.coin()));
      if rng.below(3) == 0 && h % 4 != 3 { cells.push((d, h + 1, moc || rng.coin())); }
    }
    // make it a valid BMOC: sort by start at depth dm, drop overlapping entries
    cells.sort_by_key(|&(d, h, _)| (h << (2 * (dm - d)), d));
    let mut v: Vec<CellT> = Vec::new(); let mut end = 0u64;
    for &(d, h, f) in cells.iter() { let s = 2 * (dm - d) as u32; let (a, e) = (h << s, (h + 1) << s); if !v.is_empty() && a < end { continue; } v.push((d, h, f)); end = e; }
    if moc { let iv = to_intervals(dm, &v); v = canonical_from_intervals(dm, &iv); }
    let coarse: Vec<(u8, u64)> = v.iter().filter(|c| c.0 <= 6).map(|c| (c.0, c.1)).collect();
    let _ = coarse.len();
    (dm, v, coarse)
  };
  let (dma, ca, coarse_a) = mk(rng, &[]);
  let (dmb, cb, _) = mk(rng, &coarse_a);
  if rng.coin() { (dma, ca, dmb, cb) } else { (dmb, cb, dma, ca) }
}

/// algebraic identities through BMOC::equals (meaningful because canonicity is judged above)
fn identities(ctx: &mut Ctx, dma: u8, ca: &[CellT], dmb: u8, cb: &[CellT]) {
  let a = to_bmoc(dma, ca); let b = to_bmoc(dmb, cb);
  let c = |name: &str| Case::new("ident").s("id", name).u("dma", dma as u64).s("a", &cells_to_str(ca)).u("dmb", dmb as u64).s("b", &cells_to_str(cb));
  let r = catch(|| {
    let mut bad: Vec<&'static str> = Vec::new();
    if !a.not().not().equals(&a) { bad.push("not(not(a))==a"); }
    let lhs = a.and(&b).not(); let rhs = a.not().or(&b.not());
    if !lhs.equals(&rhs) { bad.push("not(a and b)==not(a) or not(b)"); }
    let lhs = a.or(&b).not(); let rhs = a.not().and(&b.not());
    if !lhs.equals(&rhs) { bad.push("not(a or b)==not(a) and not(b)"); }
    if a.xor(&a).entries.len() != 0 { bad.push("a xor a==empty"); }
    let sky = a.or(&a.not());
    if cells_of(&sky) != (0..12u64).map(|h| (0u8, h, true)).collect::<Vec<_>>() { bad.push("a or not(a)==whole sky (12 full base cells)"); }
    if !a.and(&a.not()).entries.is_empty() { bad.push("a and not(a)==empty"); }
    if !a.xor(&b).equals(&a.or(&b).and(&a.and(&b).not())) { bad.push("a xor b==(a or b) and not(a and b)"); }
    if !a.or(&b).equals(&b.or(&a)) || !a.and(&b).equals(&b.and(&a)) || !a.xor(&b).equals(&b.xor(&a)) { bad.push("commutativity"); }
    bad
  });
  ctx.evals_n(8);
  match r { Err(p) => ctx.violation("identity-evaluation-panics", c("panic"), p), Ok(bad) => for name in bad { ctx.violation("algebraic-identity-broken", c(name), name.to_string()); } }
}

// ---- universes -------------------------------------------------------------------------------
/// canonical MOC cells of a bit mask over the deepest cells (depth `d`) of the listed base cells
fn mask_cells(mask: u64, bases: &[u64], d: u8) -> Vec<CellT> {
  let per = 1usize << (2 * d);
  let mut m = vec![0u8; (12usize) << (2 * d)];
  for (k, &b) in bases.iter().enumerate() { for i in 0..per { if (mask >> (k * per + i)) & 1 == 1 { m[(b as usize) * per + i] = 2; } } }
  canonical_moc(d, &m)
}
/// smallest depth_max at which the canonical cells can be expressed
fn min_depth(c: &[CellT]) -> u8 { c.iter().map(|x| x.0).max().unwrap_or(0) }

/// the 84 valid trees of one base cell with max depth 1
fn trees84(base: u64) -> Vec<Vec<CellT>> {
  let mut v: Vec<Vec<CellT>> = vec![vec![], vec![(0, base, false)], vec![(0, base, true)]];
  for code in 0..81u32 { let mut c = code; let mut t = Vec::new(); for k in 0..4u64 { match c % 3 { 1 => t.push((1, base * 4 + k, false)), 2 => t.push((1, base * 4 + k, true)), _ => {} } c /= 3; } v.push(t); }
  v
}

fn unpack_some(rng: &mut Rng, dm: u8, c: &[CellT]) -> Vec<CellT> {
  let mut out = Vec::new();
  for &(d, h, f) in c { if d < dm && rng.below(3) == 0 { for k in 0..4 { out.push((d + 1, (h << 2) | k, f)); } } else { out.push((d, h, f)); } }
  out
}

fn degenerate(dm: u8) -> Vec<Vec<CellT>> {
  let last = (12u64 << (2 * dm)) - 1;
  vec![vec![], (0..12u64).map(|h| (0u8, h, true)).collect(), vec![(dm, 0, true)], vec![(dm, last, true)], vec![(dm, last / 2, true)], vec![(0, 0, true)], vec![(0, 11, true)], (0..11u64).map(|h| (0u8, h, true)).collect()]
}

fn run(ctx: &mut Ctx, extra: &mut BTreeMap<String, String>, moc: bool) {
  let seed = ctx.seed;
  let small = ctx.pass != "release";
  let thorough = ctx.thorough;
  let ops = [Op::And, Op::Or, Op::Xor];
  if moc {
    // U1, U2 exhaustive
    let u1: Vec<Vec<CellT>> = (0..16u64).map(|m| mask_cells(m, &[5], 1)).collect();
    for a in u1.iter() { judge(ctx, Op::Not, 1, a, 1, &[], true); for b in u1.iter() { for &op in ops.iter() { judge(ctx, op, 1, a, 1, b, true); } } }
    ctx.enumerated("U1-pairs", 15 * 15);
    let u2: Vec<Vec<CellT>> = (0..256u64).map(|m| mask_cells(m, &[0, 11], 1)).collect();
    run_sharded(ctx, 16, |c, k| {
      for (ia, a) in u2.iter().enumerate() { if ia % 16 != k { continue; }
        judge(c, Op::Not, 1, a, 1, &[], true); judge(c, Op::Not, min_depth(a), a, 0, &[], true);
        for b in u2.iter() { for &op in ops.iter() { judge(c, op, 1, a, 1, b, true); if min_depth(b) == 0 { judge(c, op, 1, a, 0, b, true); judge(c, op, min_depth(a), a, 0, b, true); } }
          if ia % 5 == 0 { identities(c, 1, a, min_depth(b), b); } }
      }
    });
    ctx.enumerated("U2-pairs", 255 * 255);
    // U3
    let n_pairs: u64 = if thorough && !small { 1u64 << 32 } else if small { 20_000 } else { 1_000_000 };
    extra.insert("U3_pairs".into(), format!("{}", n_pairs));
    u3(ctx, n_pairs, seed);
  } else {
    let v1 = trees84(5);
    for a in v1.iter() { judge(ctx, Op::Not, 1, a, 1, &[], false); for b in v1.iter() { for &op in ops.iter() { judge(ctx, op, 1, a, 1, b, false); } } }
    ctx.enumerated("V1-pairs", 83 * 83);
    let (t0, t11) = (trees84(0), trees84(11));
    let v2: Vec<Vec<CellT>> = t0.iter().flat_map(|x| t11.iter().map(move |y| { let mut z = x.clone(); z.extend(y.iter().copied()); z })).collect();
    let all = thorough && !small;
    let n: u64 = if all { (v2.len() * v2.len()) as u64 } else if small { 20_000 } else { 1_000_000 };
    extra.insert("V2_pairs".into(), format!("{}", n));
    run_sharded(ctx, 16, |c, k| {
      let mut rng = Rng::new(seed, 800 + k as u64);
      if all { for (ia, a) in v2.iter().enumerate() { if ia % 16 != k { continue; } judge(c, Op::Not, 1, a, 1, &[], false); for b in v2.iter() { for &op in ops.iter() { judge(c, op, 1, a, 1, b, false); } } } c.enumerated("V2-pairs", (v2.len() as u64 / 16) * v2.len() as u64); }
      else { for _ in 0..n / 16 { let (a, b) = (rng.pick(&v2), rng.pick(&v2)); for &op in ops.iter() { judge(c, op, 1, a, 1, b, false); } c.hard("V2-random-pair", &[rng.0]); } }
    });
  }
  // random pairs beyond the exhaustive universes
  let n_rand = if thorough { if small { 20_000 } else { 3_000_000 } } else if small { 4_000 } else { 150_000 };
  run_sharded(ctx, 16, |c, k| {
    let mut rng = Rng::new(seed, 700 + k as u64);
    for it in 0..n_rand / 16 {
      let dma = rng.below(if moc { 6 } else { 5 }) as u8; let dmb = rng.below(if moc { 6 } else { 5 }) as u8;
      let wide = rng.below(4) == 0; let nb = 1 + rng.below(if wide { 12 } else { 3 });
      let mut bases: Vec<u64> = (0..12).collect(); for i in 0..12 { let j = rng.below(12) as usize; bases.swap(i, j); } bases.truncate(nb as usize); bases.sort();
      let mut ca = Vec::new(); gen_tree(&mut rng, dma.min(4), &bases, !moc, &mut ca);
      let mut cb = Vec::new(); gen_tree(&mut rng, dmb.min(4), &bases, !moc, &mut cb);
      if moc {
        ca = canonical_moc(dma, &to_model(dma, &ca)); cb = canonical_moc(dmb, &to_model(dmb, &cb));
        // valid but un-packed operands (as BMOCBuilderFixedDepth legitimately produces): split some full cells into their 4 children
        if it % 4 == 3 { ca = unpack_some(&mut rng, dma, &ca); cb = unpack_some(&mut rng, dmb, &cb); }
      }
      else if rng.below(3) != 0 { pack_model(&mut ca); pack_model(&mut cb); }
      if it % 50 == 0 { let dg = degenerate(dma); ca = dg[rng.below(dg.len() as u64) as usize].clone(); }
      if it % 50 == 1 { let dg = degenerate(dmb); cb = dg[rng.below(dg.len() as u64) as usize].clone(); }
      judge(c, Op::Not, dma, &ca, dmb, &[], moc);
      for &op in ops.iter() { judge(c, op, dma, &ca, dmb, &cb, moc); }
      // operands of another provenance (one pair in 8): the same content obtained through the fixed-depth builder (when every cell is at
      // depth_max with one flag value) or as the result of an operator (double complement, union with itself), judged on their decoded entries
      if it % 8 == 5 {
        let via = |rng: &mut Rng, dm: u8, cl: &[CellT]| -> Option<BMOC> {
          let uniform = !cl.is_empty() && cl.iter().all(|x| x.0 == dm && x.2 == cl[0].2);
          match rng.below(3) {
            0 if uniform => { let mut bld = cdshealpix::nested::bmoc::BMOCBuilderFixedDepth::with_capacity(dm, cl[0].2, 1 + rng.below(64) as usize); for x in cl { bld.push(x.1); } bld.to_bmoc() }
            1 => catch(|| to_bmoc(dm, cl).not().not()).ok(),
            _ => { let t = to_bmoc(dm, cl); catch(|| t.or(&t)).ok() }
          }
        };
        // flatten to depth_max with one flag so that the fixed-depth builder applies to half of these pairs
        let flat = |dm: u8, cl: &[CellT], f: bool| -> Vec<CellT> { let mut v = Vec::new(); for &(d, h, _) in cl { let s2 = 2 * (dm - d) as u32; if s2 > 8 { continue; } for x in (h << s2)..((h + 1) << s2) { v.push((dm, x, f)); } } v };
        let (fa, fb) = if rng.coin() { (flat(dma, &ca, moc || rng.coin()), flat(dmb, &cb, moc || rng.coin())) } else { (ca.clone(), cb.clone()) };
        if let (Some(a2), Some(b2)) = (via(&mut rng, dma, &fa), via(&mut rng, dmb, &fb)) {
          let (ca2, cb2) = (cells_of(&a2), cells_of(&b2));
          // a plain MOC (every cell full) is handed out in canonical packed form whatever produced it (fixed-depth builder included)
          if moc { for (nm, x, dmx, cx) in [("a", &a2, dma, &ca2), ("b", &b2, dmb, &cb2)].iter() { if x.get_depth_max() == *dmx && dmx <= &5 { c.eval(); let canon = canonical_moc(*dmx, &to_model(*dmx, cx)); if **cx != canon { c.violation("moc-of-another-provenance-not-in-canonical-packed-form", Case::new("op").s("op", "build").u("dma", *dmx as u64).s("a", &cells_to_str(cx)).u("dmb", 0).s("b", "-").b("moc", true).s("which", nm), format!("got {} canonical {}", fmt_cells(cx), fmt_cells(&canon))); } } } }
          if a2.get_depth_max() == dma && b2.get_depth_max() == dmb {
            judge_built(c, Op::Not, &a2, dma, &ca2, &b2, dmb, &[], moc);
            for &op in ops.iter() { judge_built(c, op, &a2, dma, &ca2, &b2, dmb, &cb2, moc); }
            c.hard("operands-of-another-provenance(fixed-depth-builder/operator-results)", &[rng.0]);
          }
        }
      }
      if moc && it % 10 == 0 { identities(c, dma, &ca, dmb, &cb); }
      let nontrivial = !ca.is_empty() && !cb.is_empty() && (dma != dmb || ca.iter().any(|x| x.0 != ca[0].0) || cb.iter().any(|x| !x.2));
      if nontrivial { c.hard(if moc { "random-pair:mixed-depths" } else { "random-pair:mixed-flags/depths" }, &[rng.0]); if c.samples.len() < 6 && it % 97 == 0 { c.sample(&mk_case(Op::Or, dma, &ca, dmb, &cb, moc), &format!("or -> {}", apply(Op::Or, &to_bmoc(dma, &ca), &to_bmoc(dmb, &cb)).map(|r| fmt_cells(&cells_of(&r))).unwrap_or_default())); } }
      else { c.bump("plain-random-pairs"); }
    }
  });
  // operands that cannot be flattened: few cells spread over depths 0..29 (depth gaps of 16..29 levels between the operands' cells),
  // judged against the interval model
  let n_sparse = if thorough { if small { 10_000 } else { 1_000_000 } } else if small { 2_000 } else { 60_000 };
  run_sharded(ctx, 16, |c, k| {
    let mut rng = Rng::new(seed, 750 + k as u64);
    for _ in 0..n_sparse / 16 {
      let (dma, ca, dmb, cb) = gen_sparse_pair(&mut rng, moc);
      judge_sparse(c, Op::Not, dma, &ca, dmb, &[], moc);
      for &op in ops.iter() { judge_sparse(c, op, dma, &ca, dmb, &cb, moc); }
    }
  });
}

/// U3: base cell 5 at depth 2, 16 deepest cells. Fast path: results compared as raw entries with the precomputed canonical BMOC of the expected mask.
fn u3(ctx: &mut Ctx, n_pairs: u64, seed: u64) {
  let all: Vec<BMOC> = (0..65536u64).map(|m| to_bmoc(2, &mask_cells(m, &[5], 2))).collect();
  // not: all 65 536 sets (general path)
  run_sharded(ctx, 16, |c, k| { for m in 0..65536u64 { if m as usize % 16 == k { judge(c, Op::Not, 2, &mask_cells(m, &[5], 2), 2, &[], true); } } });
  ctx.enumerated("U3-sets(not)", 65535);
  let exhaustive = n_pairs == 1u64 << 32;
  let allr = &all;
  run_sharded(ctx, 16, |c, k| {
    let mut rng = Rng::new(seed, 900 + k as u64);
    let mut check = |c: &mut Ctx, ma: u64, mb: u64| {
      let (a, b) = (&allr[ma as usize], &allr[mb as usize]);
      for (op, want) in [(Op::And, ma & mb), (Op::Or, ma | mb), (Op::Xor, ma ^ mb)].iter() {
        let ok = match apply(*op, a, b) { Ok(r) => r.get_depth_max() == 2 && r.entries == allr[*want as usize].entries, Err(_) => false };
        if !ok { judge(c, *op, 2, &mask_cells(ma, &[5], 2), 2, &mask_cells(mb, &[5], 2), true); }
      }
    };
    if exhaustive {
      for ma in (k as u64 * 4096)..((k as u64 + 1) * 4096) { for mb in 0..65536u64 { check(c, ma, mb); } }
      c.evals_n(3 * 4096 * 65536); c.enumerated("U3-pairs", 4095 * 65535);
    } else {
      for _ in 0..n_pairs / 16 { let (ma, mb) = (rng.below(65536), rng.below(65536)); check(c, ma, mb); c.hard("U3-random-pair", &[ma, mb]); }
      c.evals_n(3 * (n_pairs / 16));
    }
  });
}

fn replay(ctx: &mut Ctx, c: &Case) {
  let (dma, dmb) = (c.gu("dma") as u8, c.gu("dmb") as u8);
  let (ca, cb) = (cells_from_str(c.get("a").unwrap_or("-")), cells_from_str(c.get("b").unwrap_or("-")));
  match c.mon() {
    "op" => { let op = match c.get("op").unwrap_or("") { "not" => Op::Not, "and" => Op::And, "or" => Op::Or, _ => Op::Xor }; if c.get("sparse").is_some() { judge_sparse(ctx, op, dma, &ca, dmb, &cb, c.gb("moc")); } else { judge(ctx, op, dma, &ca, dmb, &cb, c.gb("moc")); } }
    "ident" => identities(ctx, dma, &ca, dmb, &cb),
    m => ctx.inconclusive(&format!("unknown replay monitor {}", m)),
  }
}
