#!/bin/bash
# Run once after a fresh restore, offline. Pre-builds the harness (release, +bmi2 and debug passes: all three are used by the quick tier); every check
# rebuilds whatever is stale anyway, so nothing here is needed for correctness.
set -e
cd "$(dirname "$0")"
export CARGO_NET_OFFLINE=true
python3 - <<'PY'
import importlib.util, sys
spec = importlib.util.spec_from_loader("check", loader=None)
src = open("check").read()
mod = type(sys)("check"); mod.__file__ = "check"
exec(compile(src.replace('if __name__ == "__main__":\n    main()', ''), "check", "exec"), mod.__dict__)
for p in ("release", "bmi2", "debug", "bmi2dbg"):
    mod.build_harness(p)
PY
# pre-build the ThreadSanitizer std (-Zbuild-std) and Miri sysroot used by C20 so that the first C20 check is not dominated by them
python3 - <<'PY' || true
import sys
sys.path.insert(0, ".")
import check_c20
check_c20.build("tsan", "/repo")
check_c20.build("native", "/repo")
PY
(cd .build/conc-miri 2>/dev/null || true; cargo +nightly miri setup >/dev/null 2>&1 || true)
# validate the oracle (mpmath cross-check of the reference model); informative here, enforced by the thorough C01/C03/C17 checks
./.build/release/target/release/hpxmon --prop SELFTEST --out .build/selftest.json >/dev/null 2>&1 && HPX=1 python3-vt oracle_selftest/selftest.py /tmp/hpx_selftest.txt || echo "oracle selftest did not pass (see above)"
rm -f /tmp/hpx_selftest.txt .build/selftest.json
echo "setup done"
