//! C18 under Miri: the z-order implementations use mem::transmute between integers and byte arrays; this small
//! differential workload runs them in the UB interpreter (alignment, validity, out-of-bounds LUT indices are checked).
use cdshealpix::nested;
use cdshealpix::nested::zordercurve::{get_zoc, ZOrderCurve, LARGE_ZOC_LUT, LARGE_ZOC_XOR};

fn interleave(i: u32, j: u32) -> u64 { let mut h = 0u64; for b in 0..32 { h |= (((i >> b) & 1) as u64) << (2 * b); h |= (((j >> b) & 1) as u64) << (2 * b + 1); } h }

fn check(z: &dyn ZOrderCurve, depth: u8, i: u32, j: u32, bad: &mut u64, n: &mut u64) {
  let want = interleave(i, j);
  *n += 1;
  if z.ij2h(i, j) != want { *bad += 1; }
  let ij = z.h2ij(want);
  if depth > 0 && (z.ij2i(ij) != i || z.ij2j(ij) != j) { *bad += 1; }
  if z.i02h(i) != interleave(i, 0) || z.oj2h(j) != interleave(0, j) { *bad += 1; }
}

fn main() {
  let seed: u64 = std::env::args().nth(1).and_then(|s| s.parse().ok()).unwrap_or(1);
  let mut s = seed.wrapping_mul(0x9E3779B97F4A7C15) | 1;
  let mut next = || { s ^= s << 13; s ^= s >> 7; s ^= s << 17; s };
  let (mut bad, mut n) = (0u64, 0u64);
  for depth in 0..30u8 {
    let z = get_zoc(depth);
    let mask = if depth == 0 { 0 } else { ((1u64 << depth) - 1) as u32 };
    for k in 0..40u32 {
      let (i, j) = match k { 0 => (0, 0), 1 => (mask, mask), 2 => (mask, 0), 3 => (0, mask), 4 => (0x55555555 & mask, 0xAAAAAAAA & mask), _ => (next() as u32 & mask, next() as u32 & mask) };
      check(z, depth, i, j, &mut bad, &mut n);
    }
    // one byte lane walked through all 256 values
    if depth >= 1 { let lane = (depth as u32 - 1) / 8; for a in (0..256u32).step_by(5) { check(z, depth, (a << (8 * lane)) & mask, ((255 - a) << (8 * lane)) & mask, &mut bad, &mut n); } }
    let nh = 12u64 << (2 * depth);
    for &h in [0, 1, nh / 2, nh - 1, next() % nh].iter() {
      n += 1;
      let (u, ui) = (nested::to_uniq(depth, h), nested::to_uniq_ivoa(depth, h));
      if nested::from_uniq(u) != (depth, h) || nested::from_uniq_ivoa(ui) != (depth, h) { bad += 1; }
    }
  }
  for _ in 0..60 { let (i, j) = (next() as u32, next() as u32); check(&LARGE_ZOC_LUT, 32, i, j, &mut bad, &mut n); check(&LARGE_ZOC_XOR, 32, i, j, &mut bad, &mut n); }
  println!("MIRI18-RESULT {{\"evaluations\": {}, \"bad\": {}, \"seed\": {}}}", n, bad, seed);
  if bad > 0 { std::process::exit(1); }
}
