#!/usr/bin/env python3-vt
"""Cross-check of the harness's f64 reference model (harness/src/refm.rs) against an independent 50-digit
implementation of the HEALPix projection (Calabretta & Roukema 2007) with mpmath.
Validates the ORACLE, decides nothing about the crate. Exit 0 = agreement, 1 = disagreement (dependent checks must then be
treated as inconclusive), 2 = could not run."""
import struct, sys
try:
    import mpmath as mp
except Exception as e:
    print("selftest: mpmath not available:", e); sys.exit(2)
mp.mp.dps = 50
PI = mp.pi

def f(hexs):
    return struct.unpack(">d", bytes.fromhex(hexs))[0]

def proj_images(lon, lat):
    """all admissible images, x in [0, 8)"""
    lon = mp.mpf(lon); lat = mp.mpf(lat)
    l = lon % (2 * PI)
    t = l * 4 / PI
    z = mp.sin(lat)
    out = []
    if abs(z) <= mp.mpf(2) / 3:
        out.append((t % 8, mp.mpf(3) / 2 * z))
    if abs(z) >= mp.mpf(2) / 3:
        sigma = mp.sqrt(3 * (1 - abs(z)))
        sgn = -1 if z < 0 else 1
        q = int(mp.floor(t / 2)) % 4
        tt = t - 2 * mp.floor(t / 2)
        xc = 2 * q + 1
        out.append(((xc + (tt - 1) * sigma) % 8, sgn * (2 - sigma)))
        # a point within rounding of a facet border (lon = k.pi/2) or of a pole also has the image(s) of the adjacent facet(s)
        tol = mp.mpf("1e-14")
        if tt * sigma <= tol or sigma <= tol:
            out.append(((2 * ((q + 3) % 4) + 1 + sigma) % 8, sgn * (2 - sigma)))
        if (2 - tt) * sigma <= tol or sigma <= tol:
            out.append(((2 * ((q + 1) % 4) + 1 - sigma) % 8, sgn * (2 - sigma)))
        if sigma <= tol:
            out.append((mp.mpf(2 * ((q + 2) % 4) + 1), sgn * (2 - sigma)))
    return out

def unproj(x, y):
    x = mp.mpf(x); y = mp.mpf(y)
    if abs(y) <= 1:
        return x * PI / 4, mp.asin(y * 2 / 3)
    sigma = 2 - abs(y)
    q = min(int(mp.floor(x / 2)), 3)
    xc = 2 * q + 1
    tt = (x - xc) / sigma if sigma > 0 else mp.mpf(0)
    tt = max(-1, min(1, tt))
    lon = (xc + tt) * PI / 4
    lat = mp.asin(1 - sigma * sigma / 3)
    return lon, (-lat if y < 0 else lat)

def main(path):
    worst_p = worst_u = worst_c = mp.mpf(0); n = 0; bad = []
    for line in open(path):
        w = line.split()
        if w[0] == "P":
            lon, lat, k = f(w[1]), f(w[2]), int(w[3])
            imgs = [(f(w[4 + 2 * i]), f(w[5 + 2 * i])) for i in range(k)]
            ref = proj_images(lon, lat)
            # every image of the f64 model must match an image of the exact model (the exact model may list fewer: seam images are added by tolerance only)
            for (x, y) in imgs:
                e = min(max(min(abs(mp.mpf(x) - rx), 8 - abs(mp.mpf(x) - rx)), abs(mp.mpf(y) - ry)) for rx, ry in ref)
                # sigma has a sqrt singularity at the pole: |d sigma| ~ eps / sigma; allow for it
                z = mp.sin(mp.mpf(lat)); sig = mp.sqrt(3 * (1 - abs(z))) if abs(z) > mp.mpf(2) / 3 else mp.mpf(1)
                tol = mp.mpf("4e-15") + mp.mpf("2e-16") / max(sig, mp.mpf("1e-8")) * 0 + mp.mpf("3e-16") * 8
                worst_p = max(worst_p, e)
                if e > tol: bad.append(("proj", lon, lat, float(e)))
            n += 1
        elif w[0] == "U":
            x, y, lon, lat = f(w[1]), f(w[2]), f(w[3]), f(w[4])
            rl, rb = unproj(x, y)
            # compare on the sphere
            d = mp.acos(min(1, mp.sin(rb) * mp.sin(mp.mpf(lat)) + mp.cos(rb) * mp.cos(mp.mpf(lat)) * mp.cos(rl - mp.mpf(lon)))) if False else mp.sqrt(((rb - mp.mpf(lat))) ** 2 + (mp.cos(rb) * (rl - mp.mpf(lon))) ** 2)
            worst_u = max(worst_u, d)
            if d > mp.mpf("3e-15"): bad.append(("unproj", x, y, float(d)))
            n += 1
        elif w[0] == "C":
            depth, d0, i, j = int(w[1]), int(w[2]), int(w[3]), int(w[4]); cx, cy = f(w[5]), f(w[6])
            ns = mp.mpf(2) ** depth
            row, col = divmod(d0, 4)
            xc, yc = ((2 * col + 1, 1), (2 * col, 0), (2 * col + 1, -1))[row]
            rx = xc + (mp.mpf(i) - j) / ns; ry = yc + (mp.mpf(i) + j + 1 - ns) / ns
            e = max(abs(rx - cx), abs(ry - cy)); worst_c = max(worst_c, e)
            if e > mp.mpf("2e-15"): bad.append(("cell", depth, (d0, i, j), float(e)))
            n += 1
    print(f"selftest: {n} comparisons; worst |proj - exact| = {float(worst_p):.3e} plane units, worst unproj error = {float(worst_u):.3e} rad, worst cell-centre error = {float(worst_c):.3e}")
    if bad:
        for b in bad[:10]: print("  DISAGREE", b)
        return 1
    return 0

if __name__ == "__main__":
    sys.exit(main(sys.argv[1]))
