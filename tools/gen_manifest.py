#!/usr/bin/env python3
"""Regenerates /verif/MANIFEST.json from the table below (keeps the file valid at all times)."""
import json, os
V = os.path.dirname(os.path.dirname(os.path.abspath(__file__)))
props = [json.loads(l) for l in open(os.path.join(V, "properties.jsonl"))]

# id -> (technique, level text, level note, design ref)
CHECKS = {
 "C01": ("reference-model monitor over generated hostile positions (runtime oracle)",
         "Every Layer::hash result of a generated workload (millions of positions x 30 depths, aimed at seams, borders +-ulps, poles, |lon|>=2pi) is judged by an independent HEALPix projection model: in range, point inside-or-on the returned cell within 1e-5 of a depth-29 cell, bad latitudes panic. Held-on-explored, not a proof.",
         "trusted: harness/src/refm.rs reference projection (cross-checked with mpmath), catch_unwind sees all panics", "DESIGN.md §4 C01"),
 "C03": ("reference-model + round-trip monitors over exhaustive small depths and class-sampled deep depths (runtime oracle)",
         "Every accessor result (centre, sph_coo, 3 vertex accessors, edge/side paths, grids, hash_with_dxdy) for all cells of depths <= 5/8 and class-sampled cells up to depth 29, plus hash_with_dxdy on the hostile position set x 30 depths, is judged against the independent cell geometry and by hashing back; bad cell numbers must panic.",
         "trusted: refm.rs geometry; Layer::hash as point locator for inward-nudged points (judged by C01)", "DESIGN.md §4 C03"),
 "C04": ("geometric adjacency monitor: stars of reference-located points around reference vertices / edge midpoints (runtime oracle)",
         "For all cells of small depths and every seam class of every deeper depth up to 29 the neighbour map is compared with the cells found geometrically around each vertex and edge midpoint by an independent point-location model (set, labels, counts 8/7/6, symmetry, neighbour() agreement, include_center, rejection of out-of-range cells).",
         "trusted: refm.rs point location; ambiguous stars make the cell inconclusive", "DESIGN.md §4 C04"),
 "C05": ("witness-based coverage monitor over generated hostile cones (runtime oracle)",
         "Every generated cone (poles, seams, exact cell centres/vertices, radii 1e-10..pi incl. radii aimed at each starting-depth threshold, all depths 0..29, approx/custom/flat variants) is run and >= 200 points strictly inside the cone, located with the crate's hash, must be covered by the returned BMOC; for depth <= 4 all cells are scanned. Known finding R5 (starting-depth table) is reported under an exact signature.",
         "trusted: Layer::hash (C01) for witness location; witnesses accepted only with an accurately recomputed distance <= r(1-1e-9)", "DESIGN.md §4 C05"),
 "C06": ("invariant monitor on the cells of every cone result (reference geometry oracle)",
         "For the same cones: every full cell's 16 reference border points within the radius, every cell centre within r + 2 cell radii, r >= pi gives the 12 full base cells, no four full siblings, C09 walker.",
         "trusted: refm.rs vertices/edge points; 1.08/nside as cell radius bound", "DESIGN.md §4 C06"),
 "C07": ("executable-model monitor (bit-set algebra), exhaustive on bounded universes + random pairs, results compared with the model's canonical packing",
         "All pairs of MOCs of universes U1/U2 (and all 2^32 pairs of U3 in thorough, 10^6 sampled in quick), random pairs with different depth_max / unpacked-but-valid operands / degenerate shapes: result entries must equal the canonical packing of the set operation; identities checked with equals.",
         "trusted: bm.rs model + canonical packer", "DESIGN.md §4 C07"),
 "C08": ("executable-model monitor (three-valued map), exhaustive on bounded universes + random flagged trees",
         "All 7056 pairs of V1, 10^6 sampled (all 4.98e7 in thorough) pairs of V2 and random flagged trees: result mapped to deepest-cell states and compared with the documented tables; well-formedness checked.",
         "trusted: bm.rs model; tables from the operators' documentation", "DESIGN.md §4 C08"),
 "C09": ("invariant walker over every BMOC of random operator histories built on the outputs of all producers (online structural monitor)",
         "Programs of 1-6 operators (not/and/or/xor) over BMOCs produced by cone / custom cone / elliptical cone / polygon (both modes) queries at depths 0..29 and by both builders; every initial, intermediate and final BMOC is walked: entry encoding, order, disjointness, agreement of into_iter / flat_iter / flat_iter_cell / to_flat_array / deep_size / size_hint / to_ranges (disjoint, non-adjacent).",
         "trusted: bm.rs independent decoding; flat views compared only when the deep size is <= 2e5", "DESIGN.md §4 C09"),
 "C10": ("exhaustive bijection + ordering monitor on small depths, ring-boundary classes deeper; reference = integer RING decode",
         "All RING/NESTED indices of depths <= 8 (quick) / <= 10 (thorough) and ring-boundary classes of depths up to 29 are pushed through to_ring/from_ring/ring::center and judged against an exact-integer RING decoder, the reference cell centres and the ordering rule.",
         "trusted: refm.rs ring_decode (u128 + integer sqrt), reference centres", "DESIGN.md §4 C10"),
 "C11": ("reference-model monitor over every cell of small nsides, boundary classes of 40 hostile nsides, and hostile positions (runtime oracle)",
         "ring::center/vertices/sph_coo/hash/hash_with_dxdy for every cell of nside 1..40 (1..300 thorough), ring-boundary classes of primes / 2^k+-1 / huge nsides up to 2^29, and the hostile position set x 41 nsides are judged against the integer RING decoder and reference projection: containment, ordering, ring sizes, round trips, rejections.",
         "trusted: refm.rs ring_decode + projection; containment tolerance 1e-14 plane units", "DESIGN.md §4 C11"),
 "C12": ("oracle monitor over generated convex / star polygons (half-space reference), crash attribution through last-case files",
         "Generated polygons (3-9 vertices, both windings, R from 1e-10 to 0.79 rad at matched depths, crossing lon=0 / seams / transition latitude, never near a pole) through polygon_coverage (approx and exact) and Polygon::contains: no panic or abnormal exit, well formed, vertex cells covered, full flags honest for convex polygons, tightness for R < 0.3, contains == geometric definition. Known findings R17 (R < 1e-6 rad) and R21 (exact mode, edge crossing lon=0 in a polar cap) are reported under exact signatures.",
         "trusted: refm.rs convex half-space oracle; Layer::hash (C01)", "DESIGN.md §4 C12"),
 "C13": ("oracle monitor over generated elliptical cones + witness oracle in the circular case",
         "Generated ellipses (a from 1e-10 rad to 0.999 pi/2 incl. threshold radii, b/a in [0.05,1], a third circular, all depths, delta 0..3): no panic, well formed, centre cell covered, tightness a + 2 cell radii, circular => cone witness oracle, a >= pi/2 rejected by both entry points. R5 reported under its signature.",
         "trusted: Layer::hash (C01); 1.08/nside cell radius bound", "DESIGN.md §4 C13"),
 "C14": ("model-based monitor: expected border walk from a reference bit-interleave, expected external ring from neighbours of the deep border cells (runtime oracle)",
         "internal_edge(_sorted), internal_corner, internal_edge_part, external_edge(_sorted|_struct) and their free-function wrappers are compared, for every cell of small depths with delta<=4/6 and for all seam classes of every deeper depth (delta up to depth+delta=29), with sets/walks built independently; duplicates, order, labels and counts are all judged.",
         "trusted: refm.rs interleave; Layer::neighbours (judged geometrically by C04) + 1% geometric spot checks", "DESIGN.md §4 C14"),
 "C15": ("model-based monitor over generated push sequences and trees",
         "Fixed-depth builder fed with sorted / reverse / random / duplicate-heavy / aligned and mis-aligned clustered sequences at capacities 1..40 (forcing intermediate merges through or): result set == pushed set, flags, None iff empty; pack and lower-depth variants on random valid trees: state map preserved, no four full siblings, coarse-cell rules.",
         "trusted: bm.rs model", "DESIGN.md §4 C15"),
 "C16": ("bound monitors against reference cell geometry + containment witnesses at threshold radii (runtime oracle)",
         "(a) bound >= true centre-to-vertex distance for every cell of depths <= 7/9 and class samples to depth 29; (b) *_with_radius bounds vs every cell centred inside generated cones (poles, seams, transition); (c) best_starting_depth: monotone, equal to a scan of thresholds found by bisection, refusal rule, and containment of the cone in the centre cell + neighbours for radii aimed at the thresholds. Known finding R5 (table slightly too large at polar-cap seams) is reported as KNOWN-FINDING under an exact signature.",
         "trusted: refm.rs geometry, Layer::hash / neighbours (C01, C04); claim (a) is evaluated at cell centres (the quantifier is over cells)", "DESIGN.md §4 C16"),
 "C17": ("reference-model monitor (independent Calabretta-Roukema formulae) + round-trip monitors, both directions",
         "proj/unproj/base_cell_from_proj_coo outputs for millions of generated sphere positions and plane points (facet boundaries, |y| in {1,2}, poles +-ulps, negative and >2pi longitudes) are judged against an independent projection model, round-trips and range/sign rules; out-of-range arguments must panic.",
         "trusted: refm.rs reference projection (cross-checked with mpmath); a facet-boundary point has two admissible images, either is accepted", "DESIGN.md §4 C17"),
 "C18": ("differential monitor against a bit-loop specification, per implementation class and per build (LUT, BMI2, debug); exhaustive on small classes",
         "Every z-order implementation reachable (get_zoc per depth in the LUT build and in the +bmi2 build, public LARGE_ZOC_* statics) is compared with a bit-loop interleave: all pairs for depth<=8 (and all 2^32 pairs of depth 16 in thorough), byte-lane exhaustive + random deeper; uniq encodings inverse/monotone/rejecting depth>29. Exhaustive where stated, sampled elsewhere.",
         "trusted: refm.rs bit loop; the CPU executing pdep/pext correctly", "DESIGN.md §4 C18"),
 "C19": ("invariant monitor over generated positions (quadrants of all cell classes, missing-neighbour cells, seams, hostile positions)",
         "Every bilinear_interpolation result for positions in the four quadrants / centre / quadrant boundaries of class-sampled cells of every depth (all 24 missing-neighbour cells per depth) and for the hostile position set is judged: weights >= 0 and summing to 1, cells = containing cell or its neighbours, centre weight, weighted mean of centres (reference offsets), zero-weight entry next to three-cell points.",
         "trusted: refm.rs containment/offsets; Layer::neighbours (C04)", "DESIGN.md §4 C19"),
 "C20": ("race detectors (Miri many-seeds, ThreadSanitizer) + exactly-once / same-object / same-result monitors over recorded concurrent first-use executions",
         "A small program releases N threads from a barrier into their first get_or_create(depth) (same depth and mixed depths, both lazy tables), records enter/return stamps and completion orders, and asserts pointer identity, equality with single-threaded results and construction count == 1 (hook). It is executed under Miri with many scheduler seeds (data-race/UB oracle), under ThreadSanitizer in fresh processes, and natively; evidence reports calls, overlapping calls and distinct completion orders observed.",
         "trusted: Miri / TSan happens-before race detection; schedules are sampled, not enumerated", "DESIGN.md §4 C20"),
 "C02": ("exact differential monitor across the 30 depths (runtime oracle)",
         "For every generated position the 30 hashes are compared bit for bit (consecutive depths and against depth 29). Exact oracle, sampled inputs concentrated on cell borders.",
         "trusted: none beyond integer comparison; inputs are sampled", "DESIGN.md §4 C02"),
}
PENDING = "check designed (DESIGN.md §4) but not yet registered in this commit; under construction"

checks = []
for pid, (tech, text, note, ref) in sorted(CHECKS.items()):
    checks.append({
        "property_id": pid,
        "quick_cmd": f"./check {pid} quick",
        "thorough_cmd": f"./check {pid} thorough",
        "evidence_file": f"evidence/{pid}.json",
        "replay_cmd_template": f"./check {pid} --replay {{path}}",
        "engine": "hpxmon" if pid != "C20" else "conc",
        "level_claimed": {"category": "exploration", "text": text, "design_ref": ref},
        "level_note": note,
        "technique": tech,
    })
na = [{"property_id": p["id"], "reason": PENDING} for p in props if p["id"] not in CHECKS]
manifest = {
  "version": 1,
  "setup_cmd": "./setup.sh",
  "hooks": {
    "guard": "--cfg cdshealpix_verif (rustc cfg flag, passed through RUSTFLAGS)",
    "enable": "RUSTFLAGS='--cfg cdshealpix_verif' cargo build --offline (done by ./check for every pass)",
    "baseline_off_cmd": "cd /repo && cargo test --workspace --no-fail-fast --offline",
    "source_commits": json.load(open(os.path.join(V, "hooks.json")))["source_commits"] if os.path.exists(os.path.join(V, "hooks.json")) else [],
    "add_only": True,
  },
  "engines": [
    {"name": "hpxmon", "path": "harness/", "serves_properties": [c for c in sorted(CHECKS) if c != "C20"],
     "kind_free_text": "Rust monitor harness linked against the repository's working tree: seeded hostile workload generators, independent reference model (refm.rs), invariant walkers, violation/known-finding/replay plumbing; driven by ./check"},
    {"name": "conc", "path": "conc/", "serves_properties": ["C20"] if "C20" in CHECKS else [],
     "kind_free_text": "small multi-threaded first-use program run under Miri (many seeds), ThreadSanitizer and natively, with construction-counter hook"},
  ],
  "checks": checks,
  "not_applicable": na,
  "notes": "Technique family: runtime monitoring and sanitizers. Exit codes of ./check: 0 held on explored, 1 violation (VIOLATION line + replay file), 2 inconclusive. Known findings: known_findings.json.",
}
json.dump(manifest, open(os.path.join(V, "MANIFEST.json"), "w"), indent=1)
print("MANIFEST.json:", len(checks), "checks,", len(na), "pending")
