#!/bin/bash
# usage: tools/verify_seed.sh <worktree> <seed-name> <property>
# Confirms independently, from the delivered patch.diff only (git stash is shared between worktrees: never used here):
# (1) the patched crate passes the test suite, (2) the demo fails with the patch, (3) the demo passes without it. Then stores the artefacts.
set -u
wt=$1; name=$2; prop=$3
cd $wt || exit 3
[ -s patch.diff ] || { echo "no patch.diff"; exit 3; }
cp patch.diff /tmp/$name.patch.diff
git checkout -q -- src
git apply /tmp/$name.patch.diff || { echo "patch does not apply"; exit 3; }
t=$(cargo test --workspace --no-fail-fast --offline 2>&1 | grep -E "^test result")
echo "$t"
ok=$(echo "$t" | grep -c "test result: ok")
fails=$(echo "$t" | grep -c "FAILED")
(cd demo && cp -n ../Cargo.lock . 2>/dev/null; cargo run --offline --release >/tmp/$name.demo_with.log 2>&1); rc_with=$?
git apply -R /tmp/$name.patch.diff
(cd demo && cargo run --offline --release >/tmp/$name.demo_without.log 2>&1); rc_without=$?
git apply /tmp/$name.patch.diff
echo "tests ok-lines=$ok failed-lines=$fails demo_with=$rc_with demo_without=$rc_without"
if [ "$ok" -ge 2 ] && [ "$fails" -eq 0 ] && [ "$rc_with" -ne 0 ] && [ "$rc_without" -eq 0 ]; then
  d=/verif/seeded/$name; mkdir -p $d/demo/src
  cp /tmp/$name.patch.diff $d/patch.diff
  cp demo/Cargo.toml $d/demo/; cp demo/src/*.rs $d/demo/src/
  [ -f NOTES.md ] && cp NOTES.md $d/NOTES.md
  echo "{\"property\": \"$prop\", \"name\": \"$name\", \"confirmed\": {\"tests_pass_with_change\": true, \"demo_exit_with_change\": $rc_with, \"demo_exit_without_change\": $rc_without}}" > $d/confirm.json
  echo "STORED $d"
else
  echo "NOT CONFIRMED"
fi
