#!/bin/bash
# Regression of the checks against every seeded change: for each seeded/<name>/ a scratch worktree of /repo HEAD is
# created under /tmp, patch.diff applied, the quick check of the property run against it (VERIF_REPO), exit 1 expected;
# the worktree and its build output are removed straight afterwards. Usage: tools/replay_seeded.sh [name-prefix]
cd "$(dirname "$0")/.."
V=$(pwd)
ok=0; bad=0
for d in seeded/${1:-}*/; do
  name=$(basename $d); prop=$(python3 -c "import json;m=json.load(open('$d/meta.json'));print(m.get('property_caught_by', m['property']))" 2>/dev/null || echo ${name:0:3})
  tier=$(python3 -c "import json;print(json.load(open('$d/meta.json')).get('tier','quick'))" 2>/dev/null || echo quick)
  if python3 -c "import json,sys;sys.exit(0 if 'superseded' in json.load(open('$d/meta.json')) else 1)" 2>/dev/null; then echo "SKIPPED $name (superseded)"; continue; fi
  wt=/tmp/seedwt-$name
  git -C /repo worktree add -q $wt HEAD || continue
  if git -C $wt apply $V/$d/patch.diff; then
    out=$(VERIF_REPO=$wt ./check $prop $tier 2>&1); rc=$?
    if [ $rc -eq 1 ]; then ok=$((ok+1)); echo "CAUGHT  $name by $prop: $(echo "$out" | grep -m1 '^VIOLATION' | sed 's/.*sig=//' | cut -c1-100)"; else bad=$((bad+1)); echo "MISSED  $name by $prop (exit $rc)"; fi
  else echo "PATCH-DOES-NOT-APPLY $name"; bad=$((bad+1)); fi
  git -C /repo worktree remove --force $wt
  rm -rf $V/.build/*-$(python3 -c "import hashlib;print(hashlib.sha1('$wt'.encode()).hexdigest()[:8])")
done
echo "seeded changes caught: $ok, missed: $bad"
[ $bad -eq 0 ]
