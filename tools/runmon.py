#!/usr/bin/env python3
"""dev helper: run the release monitor binary directly and summarise its part file: tools/runmon.py C14 [quick|thorough] [seed] [pass]"""
import json, subprocess, sys
prop = sys.argv[1]; tier = sys.argv[2] if len(sys.argv) > 2 else "quick"; seed = sys.argv[3] if len(sys.argv) > 3 else "1"; pas = sys.argv[4] if len(sys.argv) > 4 else "release"
exe = f"/verif/.build/{pas}/target/{'debug' if pas=='debug' else 'release'}/hpxmon"
known = []
try:
    known = [e["id"] for e in json.load(open("/verif/known_findings.json"))["findings"] if e["status"] == "known"]
except Exception: pass
out = f"/tmp/{prop}.part.json"
subprocess.run([exe, "--prop", prop, "--tier", tier, "--seed", seed, "--pass", pas, "--known", ",".join(known), "--out", out], stdout=subprocess.DEVNULL, stderr=subprocess.DEVNULL)
d = json.load(open(out))
print("evals", d["evaluations"], "distinct", d["distinct_nontrivial"], "viol", d["n_violations"], "wall", round(d["wall_s"], 1), "inconclusive", d["inconclusive"][:2], "amb", d["oracle_ambiguous"])
print("classes", d["classes"])
for k, v in d["histogram"].items(): print("  ", k, v)
print("worst", d["worst"])
print("known", [(k["id"], k["count"]) for k in d["known_hits"]])
seen = {}
for v in d["violations"]:
    seen[v["sig"]] = seen.get(v["sig"], 0) + 1
    if seen[v["sig"]] > int(sys.argv[5] if len(sys.argv) > 5 else 2): continue
    print(v["sig"][:60].ljust(60), v["pretty"][:140], "::", v["detail"][:200])
