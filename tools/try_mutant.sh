#!/bin/bash
# usage: tools/try_mutant.sh <worktree-with-change-applied> <check-id>...   -> runs the quick checks against that tree
wt=$1; shift
for id in "$@"; do
  out=$(VERIF_REPO=$wt ./check $id quick 2>&1); rc=$?
  echo "== $id on $wt: exit $rc"
  echo "$out" | grep -E "^VIOLATION|^INCONCLUSIVE" | head -3 | cut -c1-420
  echo "$out" | grep -E "^\[check\] C" | cut -c1-220
done
# evidence files were overwritten by runs on the mutant: the real tree must be re-run before committing evidence
