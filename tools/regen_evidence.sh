#!/bin/bash
# re-run every check of the given tier (default quick) against /repo and leave the evidence files in evidence/
tier=${1:-quick}
cd "$(dirname "$0")/.."
for p in C01 C02 C03 C04 C05 C06 C07 C08 C09 C10 C11 C12 C13 C14 C15 C16 C17 C18 C19 C20; do
  ./check $p $tier 2>&1 | grep -E "^\[check\] C|^VIOLATION|^INCONCLUSIVE" | cut -c1-260
done
