#!/bin/bash
# usage: tools/process_seed.sh <worktree> <seed-name> <property> [other properties to try]
# verify_seed (independent confirmation from patch.diff) + quick checks of the listed properties against the patched tree;
# copies demo/.cargo if any; prints a one-line summary per check. The worktree is left in place (remove it yourself).
wt=$1; name=$2; prop=$3; shift 3
cd "$(dirname "$0")/.."
tools/verify_seed.sh $wt $name $prop 2>&1 | tail -2
if [ -d $wt/demo/.cargo ] && [ -d seeded/$name ]; then mkdir -p seeded/$name/demo/.cargo; cp $wt/demo/.cargo/config.toml seeded/$name/demo/.cargo/ 2>/dev/null; fi
tools/try_mutant.sh $wt $prop "$@"
