//! C15 under Miri for a target whose `usize` is 32 bits (i686; wasm32 is the target of the crate's own web binding): the fixed-depth
//! builder turns run lengths into shifts and sizes computed in `usize`. Dev profile: overflow checks and debug assertions are on, so
//! an overflowing shift panics (counted as a failure); the result is compared with an independent greedy canonicaliser of the pushed set.
use cdshealpix::nested::bmoc::{BMOC, BMOCBuilderFixedDepth};
use std::panic::{catch_unwind, AssertUnwindSafe};

/// (depth, hash, flag) of the raw entries, decoded independently of the crate's accessors
fn cells(b: &BMOC) -> Vec<(u8, u64, bool)> {
  let dm = b.get_depth_max();
  b.entries.iter().map(|&raw| { let f = raw & 1 == 1; let r = raw >> 1; let dd = (r.trailing_zeros() / 2) as u8; (dm - dd, r >> (2 * dd + 1), f) }).collect()
}
/// canonical form of a sorted, duplicate-free set of cells of depth `d`: greedily the largest aligned block starting at each position
fn canonical(d: u8, set: &[u64]) -> Vec<(u8, u64)> {
  let mut out = Vec::new(); let mut i = 0usize;
  while i < set.len() {
    let h = set[i]; let mut k = 0u8;
    while k < d {
      let n = 1u64 << (2 * (k + 1));
      if h % n != 0 { break; }
      let end = i as u64 + n; if end > set.len() as u64 { break; }
      if set[(end - 1) as usize] != h + n - 1 { break; }
      k += 1;
    }
    out.push((d - k, h >> (2 * k))); i += 1usize << (2 * k);
  }
  out
}

fn main() {
  let seed: u64 = std::env::args().nth(1).and_then(|s| s.parse().ok()).unwrap_or(1);
  let mut s = seed.wrapping_mul(0x9E3779B97F4A7C15) | 1;
  let mut next = || { s ^= s << 13; s ^= s >> 7; s ^= s << 17; s };
  let (mut bad, mut n) = (0u64, 0u64); let mut first_bad = String::new();
  for &depth in [0u8, 1, 3, 8, 15, 16, 17, 20, 24, 29].iter() {
    let nh = 12u64 << (2 * depth);
    for case in 0..7u32 {
      let start: u64 = match case { 0 => 0, 1 => (11u64 << (2 * depth)).min(nh - 1), 2 => if depth >= 16 { 1u64 << 32 } else { 4 }, 3 => nh.saturating_sub(20), _ => (next() % nh) & !3 };
      let len = match case % 3 { 0 => 4, 1 => 17, _ => 1 + next() % 6 };
      let set: Vec<u64> = (start..(start + len).min(nh)).collect();
      for &flag in [true, false].iter() { for &cap in [0usize, 3].iter() {
        n += 1;
        let r = catch_unwind(AssertUnwindSafe(|| { let mut b = if cap == 0 { BMOCBuilderFixedDepth::new(depth, flag) } else { BMOCBuilderFixedDepth::with_capacity(depth, flag, cap) };
          for &h in set.iter() { b.push(h); } b.to_bmoc().map(|m| cells(&m)) }));
        let ok = match r {
          // exactly the pushed set, with the requested flag (every flag); in canonical packed form when the cells are full
          Ok(Some(cs)) => cs.iter().all(|c| c.2 == flag && c.0 <= depth)
            && cs.iter().flat_map(|c| { let sh = 2 * (depth - c.0) as u32; (c.1 << sh)..((c.1 + 1) << sh) }).take(set.len() + 1).collect::<Vec<u64>>() == set
            && (!flag || cs.iter().map(|c| (c.0, c.1)).collect::<Vec<_>>() == canonical(depth, &set)),
          _ => false,
        };
        if !ok { bad += 1; if first_bad.is_empty() { first_bad = format!("depth={} flag={} cap={} start={} len={}", depth, flag, cap, start, set.len()); } }
      } }
    }
  }
  println!("MIRI32-RESULT {{\"evaluations\": {}, \"bad\": {}, \"seed\": {}, \"usize_bits\": {}, \"first_bad\": \"{}\"}}", n, bad, seed, usize::BITS, first_bad);
  if bad > 0 { std::process::exit(1); }
}
