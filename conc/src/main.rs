//! C20 — lazy per-depth layers under concurrent first use.
//! One process = one set of "first uses" (each depth of each table is created at most once per process).
//! Run under Miri (many seeds = many schedules + data-race detector), under ThreadSanitizer, and natively.
//! usage: conc <threads> <mode: same|mixed|both|stagger> <seed> [light|lightsurf|full] [delay=<ms>]
//! Prints one line "C20-RESULT {json}" at the end; exits 1 on a monitor violation (assertion on counts / identity / results).
use cdshealpix::nested::{self, Layer};
use std::sync::atomic::{AtomicU64, Ordering};
use std::sync::{Arc, Barrier};

static SEQ: AtomicU64 = AtomicU64::new(1);
fn stamp() -> u64 { SEQ.fetch_add(1, Ordering::SeqCst) }

#[derive(Clone, Debug, PartialEq)]
struct Res { hash: u64, center: (u64, u64), neigh: Vec<u64>, cone: Vec<u64>, c2v: u64, ell: Vec<u64>, poly: Vec<u64>, bil: Vec<(u64, u64)>, ring: (u64, u64), edge: Vec<u64>, hwd: (u64, u64, u64), verts: Vec<u64> }

fn compute(layer: &Layer, depth: u8, light: bool, surface: bool) -> Res {
  let (lon, lat) = (1.0 + 0.1 * depth as f64, 0.3 + 0.03 * depth as f64);
  let hash = layer.hash(lon, lat);
  let c = layer.center(hash);
  let mut neigh = layer.neighbours(hash, true).values_vec(); neigh.sort();
  // small cone (uses the second lazily initialised table through largest_center_to_vertex_distance*)
  let cone = if light && depth > 6 { Vec::new() } else { let r = 2.5 / (1u64 << depth) as f64; layer.cone_coverage_approx(lon, lat, r.min(3.0)).entries.to_vec() };
  let c2v = cdshealpix::largest_center_to_vertex_distance(depth, lon, lat).to_bits();
  // the rest of the public surface that works through the shared layer (and, for the coverages, through the layers of the
  // shallower depths of their recursion): any state written after publication would be raced on here
  let cell = 1.0 / (1u64 << depth) as f64;
  let heavy = surface && !(light && depth > 6);
  let ell = if heavy { let a = (2.5 * cell).min(1.2); layer.elliptical_cone_coverage(lon, lat, a, 0.6 * a, 0.4).entries.to_vec() } else { Vec::new() };
  let poly = if heavy { let e = (2.0 * cell).min(0.3); layer.polygon_coverage(&[(lon - e, lat - e), (lon + e, lat - 0.5 * e), (lon, lat + e)], depth % 2 == 0).entries.to_vec() } else { Vec::new() };
  let bil: Vec<(u64, u64)> = if surface { layer.bilinear_interpolation(lon, lat).iter().map(|x| (x.0, x.1.to_bits())).collect() } else { Vec::new() };
  let ring = if surface { let r = layer.to_ring(hash); (r, layer.from_ring(r)) } else { (0, 0) };
  let edge = if surface && depth < 29 { layer.external_edge_sorted(hash, 1).to_vec() } else { Vec::new() };
  let hwd = if surface { let w = layer.hash_with_dxdy(lon, lat); (w.0, w.1.to_bits(), w.2.to_bits()) } else { (0, 0, 0) };
  let verts: Vec<u64> = if surface { layer.vertices(hash).iter().flat_map(|v| vec![v.0.to_bits(), v.1.to_bits()]).collect() } else { Vec::new() };
  Res { hash, center: (c.0.to_bits(), c.1.to_bits()), neigh, cone, c2v, ell, poly, bil, ring, edge, hwd, verts }
}

struct Obs { depth: u8, enter: u64, got: u64, ptr: usize, res: Res }

fn main() {
  let a: Vec<String> = std::env::args().collect();
  let threads: usize = a.get(1).and_then(|s| s.parse().ok()).unwrap_or(4);
  let mode = a.get(2).cloned().unwrap_or_else(|| "both".into());
  let seed: u64 = a.get(3).and_then(|s| s.parse().ok()).unwrap_or(1);
  // "light": few depths, coverages only for depth <= 6 (Miri); "lightsurf": the same plus the whole public surface; absent / "full": everything
  let light = a.get(4).map(|s| s.starts_with("light")).unwrap_or(false);
  let surface = a.get(4).map(|s| s != "light").unwrap_or(true);
  // failpoint: the constructors of the two lazily initialised tables sleep (the building thread is "descheduled" between claiming the
  // slot and publishing it); with a delay only a few depths are used so that a process stays short
  let delay: usize = a.iter().find_map(|s| s.strip_prefix("delay=").and_then(|v| v.parse().ok())).unwrap_or(0);
  #[cfg(cdshealpix_verif)]
  cdshealpix::verif::CONSTRUCTION_DELAY_MS.store(delay, Ordering::SeqCst);
  let light = light || delay > 0;
  let depths: Vec<u8> = if light { let mut v: Vec<u8> = (0..30u8).filter(|d| (*d as u64 + seed) % 5 == 0).collect(); if v.is_empty() { v.push(3); } v } else { (0..30u8).collect() };
  let mut violations: Vec<String> = Vec::new();
  let mut all: Vec<Obs> = Vec::new();
  // rounds: "same" = all threads ask the same depth at once; "mixed" = threads ask different (overlapping) depths at once
  let mut rounds: Vec<Vec<u8>> = Vec::new(); // per round: depth asked by each thread
  let stagger = mode == "stagger" || (mode == "both" && seed % 2 == 0);
  let (same_part, mixed_part): (Vec<u8>, Vec<u8>) = match mode.as_str() { "same" | "stagger" => (depths.clone(), vec![]), "mixed" => (vec![], depths.clone()), _ => { let h = depths.len() / 2; (depths[..h].to_vec(), depths[h..].to_vec()) } };
  for &d in same_part.iter() { rounds.push(vec![d; threads]); }
  let mut k = seed as usize;
  for chunk in mixed_part.chunks(2.max(threads / 2)) { rounds.push((0..threads).map(|t| { k = k.wrapping_mul(6364136223846793005).wrapping_add(1442695040888963407); chunk[(t + (k >> 33)) % chunk.len()] }).collect()); }
  for asked in rounds.iter() {
    let barrier = Arc::new(Barrier::new(threads));
    let hs: Vec<_> = (0..threads).map(|t| {
      let b = barrier.clone(); let depth = asked[t];
      std::thread::spawn(move || {
        b.wait();
        // staggered arrival (no synchronisation): some threads arrive while / after another one initialises the depth
        if stagger { let mut x = (t as u64 + 1).wrapping_mul(seed | 1); for _ in 0..((t * 37 + depth as usize * 11) % 200) * 20 { x = x.wrapping_mul(6364136223846793005).wrapping_add(1); std::hint::black_box(x); } }
        // half of the threads touch the cell-size constants table first (the second lazily initialised table)
        if t % 2 == 1 && depth > 0 { std::hint::black_box(cdshealpix::largest_center_to_vertex_distance(depth, 0.1, 0.2)); }
        let enter = stamp();
        let layer: &'static Layer = nested::get_or_create(depth);
        let got = stamp();
        let res = compute(layer, depth, light, surface);
        Obs { depth, enter, got, ptr: layer as *const Layer as usize, res }
      })
    }).collect();
    for h in hs { match h.join() { Ok(o) => all.push(o), Err(_) => violations.push("a thread panicked during concurrent first use".into()) } }
  }
  // ---- monitors (after quiescence)
  let mut overlapped = 0usize; let mut groups = 0usize; let mut orders = std::collections::BTreeSet::new();
  for d in 0..30u8 {
    let obs: Vec<&Obs> = all.iter().filter(|o| o.depth == d).collect();
    if obs.is_empty() { continue; }
    groups += 1;
    // same object
    if obs.iter().any(|o| o.ptr != obs[0].ptr) { violations.push(format!("depth {}: threads obtained different Layer objects", d)); }
    // same results as a single-threaded recomputation
    let want = compute(nested::get_or_create(d), d, light, surface);
    for o in obs.iter() { if o.res != want { violations.push(format!("depth {}: result computed through the concurrently obtained layer differs from the single-threaded result", d)); break; } }
    // overlap evidence: two calls in flight at the same time
    let mut ov = false;
    for i in 0..obs.len() { for j in 0..obs.len() { if i != j && obs[i].enter < obs[j].got && obs[j].enter < obs[i].got { ov = true; } } }
    if ov { overlapped += 1; }
    let mut ord: Vec<(u64, usize)> = obs.iter().enumerate().map(|(i, o)| (o.got, i)).collect(); ord.sort();
    orders.insert(format!("{}:{:?}", d, ord.iter().map(|x| x.1).collect::<Vec<_>>()));
  }
  // exactly once (hook)
  #[cfg(cdshealpix_verif)]
  {
    let (l, c) = cdshealpix::verif::construction_counts();
    for d in 0..30usize {
      let used = all.iter().any(|o| o.depth as usize == d);
      if used && l[d] != 1 { violations.push(format!("depth {}: Layer constructed {} times", d, l[d])); }
      if !used && l[d] > 1 { violations.push(format!("depth {}: Layer constructed {} times", d, l[d])); }
      if c[d] > 1 { violations.push(format!("depth {}: ConstantsC2V constructed {} times", d, c[d])); }
      if used && d > 0 && c[d] != 1 { violations.push(format!("depth {}: ConstantsC2V constructed {} times although used", d, c[d])); }
    }
  }
  let hooks = cfg!(cdshealpix_verif);
  println!("C20-RESULT {{\"threads\": {}, \"mode\": \"{}\", \"seed\": {}, \"calls\": {}, \"depth_groups\": {}, \"groups_with_overlapping_calls\": {}, \"distinct_completion_orders\": {}, \"orders\": [{}], \"hooks\": {}, \"construction_delay_ms\": {}, \"violations\": [{}]}}",
    threads, mode, seed, all.len(), groups, overlapped, orders.len(), orders.iter().map(|o| format!("\"{}\"", o)).collect::<Vec<_>>().join(", "), hooks, delay, violations.iter().map(|v| format!("\"{}\"", v)).collect::<Vec<_>>().join(", "));
  if !violations.is_empty() { std::process::exit(1); }
}
